#!/usr/bin/env python3
"""tools/seed_keep.py <seed dir> <k> <PROP> <caught-by check ids, comma separated> [note]  — keep a confirmed seeded change."""
import json, os, shutil, sys
src, k, prop, caught = sys.argv[1:5]
note = sys.argv[5] if len(sys.argv) > 5 else ""
dst = f"/verif/seeded/{prop}-{os.environ.get('SEED_AS', k)}"
os.makedirs(dst, exist_ok=True)
shutil.copy(f"{src}/patch{k}.diff", f"{dst}/patch.diff")
shutil.copy(f"{src}/demo{k}.py", f"{dst}/demo.py")
meta = json.load(open(f"{src}/meta{k}.json"))
meta.update({
    "property": prop,
    "confirmed": "tools/seed_eval.sh: demo exits 0 on the clean tree; patch applies to a scratch worktree of /repo HEAD; the 47 repo tests "
                 "pass with it; demo exits non-zero with it; quick check(s) run with VERIF_REPO=<scratch worktree>",
    "caught_by": [c for c in caught.split(",") if c],
    "note": note,
})
json.dump(meta, open(f"{dst}/meta.json", "w"), indent=1)
print(dst)
