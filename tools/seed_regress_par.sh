#!/bin/sh
# usage: tools/seed_regress_par.sh <parallelism> [seeded-dir ...]  — tools/seed_regress.sh over all (or the given) seeds, P at a time
cd "$(dirname "$0")/.."
P="$1"; shift
dirs="$@"; [ -z "$dirs" ] && dirs=$(ls -d seeded/*/ | sort -V)
echo $dirs | tr ' ' '\n' | xargs -P "$P" -n 1 tools/seed_regress.sh
