#!/bin/sh
# usage: tools/seed_eval.sh <dir with patch<k>.diff demo<k>.py> <k> <PROP> [extra PROP ...]
# Confirms a seeded change: demo passes on clean tree, patch applies, repo tests pass, demo fails with it,
# then runs our quick check(s) against the patched scratch worktree (VERIF_REPO) and reports caught/missed.
dir="$1"; k="$2"; shift 2
wt=$(mktemp -d /tmp/wt-eval-XXXXXX); rmdir "$wt"
git -C /repo worktree add --detach "$wt" HEAD -q || exit 2
trap 'git -C /repo worktree remove --force "$wt" >/dev/null 2>&1; rm -rf "$wt"' EXIT
patch="$dir/patch$k.diff"; [ -f "$patch" ] || patch="$dir/patch.diff"
demo="$dir/demo$k.py"; [ -f "$demo" ] || demo="$dir/demo.py"
( cd "$wt" && PYTHONPATH="$wt" timeout 300 /venv/bin/python "$demo" >/dev/null 2>&1 ); d0=$?
git -C "$wt" apply "$patch" || { echo "RESULT patch=$patch APPLY-FAILED"; exit 3; }
t=$(cd "$wt" && PYTHONPATH="$wt" timeout 600 /venv/bin/python -m pytest -q -p no:cacheprovider 2>&1 | tail -1)
( cd "$wt" && PYTHONPATH="$wt" timeout 300 /venv/bin/python "$demo" >/dev/null 2>&1 ); d1=$?
res=""
for p in "$@"; do
  out=$(cd "${VERIF_DIR:-/verif}" && VERIF_REPO="$wt" timeout 1200 ./check "$p" --tier quick --no-shrink 2>&1); rc=$?
  sig=$(echo "$out" | grep -m2 "signature:" | tr '\n' ' ')
  res="$res $p:rc=$rc"
  [ -n "$VERBOSE" ] && echo "$out" | tail -8
  echo "   $p -> rc=$rc $sig" | cut -c1-300
done
echo "RESULT patch=$patch demo_clean=$d0 tests='$t' demo_patched=$d1 checks:$res"
