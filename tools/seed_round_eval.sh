#!/bin/sh
# usage: tools/seed_round_eval.sh <dir-prefix e.g. /tmp/seed5-> <PROP ...>  — seed_eval of patches 1..3 of each property against its own check
cd "$(dirname "$0")/.."
pre="$1"; shift
for id in "$@"; do
  for k in 1 2 3; do
    [ -f "$pre$id/patch$k.diff" ] || { echo "RESULT $id-$k MISSING"; continue; }
    timeout 2400 tools/seed_eval.sh "$pre$id" $k $id 2>&1 | tail -1 | sed "s/tests='47 passed in [0-9.]*s' //" | cut -c1-220
  done
done
