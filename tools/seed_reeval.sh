#!/bin/sh
# usage: reeval.sh "C05 1 C05" "C01 1 C07 C01" ...   (dir-id, k, checks...)
cd /verif
for spec in "$@"; do echo "$spec"; done | xargs -P 3 -I{} sh -c 'set -- {}; id=$1; k=$2; shift 2; tools/seed_eval.sh ${SEED_DIR:-/tmp/s10}/$id $k "$@" 2>&1 | tail -1 | sed "s/tests=.47 passed in [0-9.]*s. //; s/demo_clean=0 demo_patched=1 //" '
