#!/bin/sh
# usage: tools/seed_regress.sh [seeded-dir ...]   — re-run every kept seeded change against the check(s) recorded as catching it
cd "$(dirname "$0")/.."
dirs="$@"; [ -z "$dirs" ] && dirs=$(ls -d seeded/*/ | sort -V)
for d in $dirs; do
  d=${d%/}
  checks=$(python3 -c "import json;print(' '.join(json.load(open('$d/meta.json'))['caught_by']))")
  wt=$(mktemp -d /tmp/wt-reg-XXXXXX); rmdir "$wt"
  git -C /repo worktree add --detach "$wt" HEAD -q || { echo "$d WORKTREE-FAILED"; continue; }
  if git -C "$wt" apply "$PWD/$d/patch.diff" 2>/dev/null; then
    res=""; ok=0
    for p in $checks; do
      VERIF_REPO="$wt" timeout 1500 ./check "$p" --tier quick --no-shrink >/dev/null 2>&1; rc=$?
      res="$res $p:rc=$rc"; [ $rc -eq 1 ] && ok=1
    done
    [ $ok -eq 1 ] && echo "$d CAUGHT$res" || echo "$d NOT-CAUGHT$res"
  else
    echo "$d PATCH-DOES-NOT-APPLY"
  fi
  git -C /repo worktree remove --force "$wt" >/dev/null 2>&1; rm -rf "$wt"
done
