#!/usr/bin/env python3
"""Regenerates the seeded-change table of DESIGN.md section 8 from seeded/*/meta.json."""
import glob, json, os, re
root = os.path.dirname(os.path.dirname(os.path.abspath(__file__)))
p = os.path.join(root, "DESIGN.md")
s = open(p).read()
rows = []
stats = {"total": 0, "missed_first": 0, "harness": 0, "other_check": 0}
def key(d):
    m = re.match(r".*/(C\d+)-(\d+)/?$", d.rstrip("/"))
    return (m.group(1), int(m.group(2)))
for d in sorted(glob.glob(os.path.join(root, "seeded", "*/")), key=key):
    m = json.load(open(os.path.join(d, "meta.json")))
    name = os.path.basename(d.rstrip("/"))
    summ = m["summary"].replace("|", "/").replace("\n", " ")
    if len(summ) > 170:
        summ = summ[:167] + "..."
    note = (m.get("note") or "").replace("|", "/")
    stats["total"] += 1
    kind_note = re.sub(r"[\s;(]*patch context refreshed.*$", "", note).strip()
    if kind_note.startswith("caught at once"):
        kind_note = ""
    if kind_note.startswith("missed"):
        stats["missed_first"] += 1
    elif "harness" in kind_note:
        stats["harness"] += 1
    elif kind_note:
        stats["other_check"] += 1
    rows.append(f"| {name} | {summ} | {', '.join(m['caught_by'])} | {note} |")
table = "| seed | change (abridged) | caught by | note |\n|------|-------------------|-----------|------|\n" + "\n".join(rows) + "\n"
a = s.index("| seed | change (abridged) | caught by | note |")
b = s.index("\nOwn mutations used while building")
s = s[:a] + table + s[b:]
open(p, "w").write(s)
print(stats)
