#!/bin/sh
# usage: tools/soak.sh <tier> <seed> [seed ...]  — run every check at the given seeds; print one line per (check, seed)
tier="$1"; shift
cd "$(dirname "$0")/.."
for s in "$@"; do
  for n in 01 02 03 04 05 06 07 08 09 10 11 12 13 14 15 16 17 18 19 20; do
    t0=$(date +%s)
    out=$(VERIF_SEED=$s timeout 7200 ./check C$n --tier "$tier" 2>&1); rc=$?
    echo "seed=$s C$n rc=$rc $(( $(date +%s) - t0 ))s $(echo "$out" | tail -1 | cut -c1-160)"
    [ $rc -ne 0 ] && echo "$out" | tail -12 | cut -c1-300
  done
done
