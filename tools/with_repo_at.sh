#!/bin/sh
# usage: tools/with_repo_at.sh <commit> <command...>   — run a command with VERIF_REPO pointing at a scratch
# export of /repo at <commit> (under /dev/shm, removed afterwards).  Never used by MANIFEST commands.
set -e
c="$1"; shift
d=$(mktemp -d /dev/shm/repo-at-XXXXXX)
trap 'rm -rf "$d"' EXIT
git -C /repo archive "$c" dissect | tar -x -C "$d"
VERIF_REPO="$d" "$@"
