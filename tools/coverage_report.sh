#!/bin/sh
# usage: tools/coverage_report.sh [PROP ...]   — line/branch coverage of /repo/dissect/hypervisor under the quick tiers (reach report,
# not an oracle): shows which library lines no generated case executes.  Evidence goes to out/evidence-scratch (VERIF_NO_EVIDENCE).
cd "$(dirname "$0")/.."
d=$(mktemp -d /dev/shm/hvcov-XXXXXX)
props="$@"; [ -z "$props" ] && props="C01 C02 C03 C04 C05 C06 C07 C08 C09 C10 C11 C12 C13 C14 C15 C16 C17 C18 C19 C20"
for p in $props; do
  VERIF_COV_DIR="$d" VERIF_EVIDENCE_SCRATCH=1 ./check $p --tier quick --no-shrink | tail -1
done
cd "$d" && /venv/bin/python -m coverage combine --data-file="$d/cov" "$d" >/dev/null 2>&1
/venv/bin/python -m coverage report --data-file="$d/cov" -m --skip-covered 2>/dev/null | cut -c1-400
rm -rf "$d"
