#!/bin/sh
# usage: tools/seed_retarget.sh seeded/*/patch.diff  — after a fix: commit in /repo: checks every patch against /repo HEAD, re-targets (git apply -3) those whose context changed, reports CONFLICT for the ones that need a hand
wt=/tmp/wt-rtall; git -C /repo worktree add --detach $wt HEAD -q 2>/dev/null
for p in "$@"; do
  git -C $wt checkout -q -- . ; git -C $wt clean -fdq
  if git -C $wt apply --check "$p" 2>/dev/null; then continue; fi
  if git -C $wt apply -3 "$p" >/dev/null 2>&1 && ! git -C $wt diff --name-only --diff-filter=U | grep -q . ; then
    git -C $wt diff HEAD > "$p.new"
    if [ -s "$p.new" ]; then cp "$p" "$p.orig"; mv "$p.new" "$p"; echo "RETARGETED $p"; else echo "EMPTY-AFTER-3WAY $p"; fi
  else
    echo "CONFLICT $p"
  fi
  git -C $wt reset -q --hard HEAD
done
git -C /repo worktree remove --force $wt
