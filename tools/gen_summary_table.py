#!/usr/bin/env python3
"""Refreshes the 'quick' column of the summary table in DESIGN.md section 0 from evidence/<id>.json (quick tier runs)."""
import json, os, re
root = os.path.dirname(os.path.dirname(os.path.abspath(__file__)))
p = os.path.join(root, "DESIGN.md")
lines = open(p).read().split("\n")
for i, line in enumerate(lines):
    m = re.match(r"^\| (C\d\d) \|", line)
    if not m or line.count("|") != 6:
        continue
    ev = os.path.join(root, "evidence", m.group(1) + ".json")
    if not os.path.exists(ev):
        continue
    e = json.load(open(ev))
    if e.get("tier") != "quick":
        continue
    cols = line.split("|")
    cov = e["coverage"]
    sp = lambda n: f"{n:,}".replace(",", " ")  # noqa: E731
    txt = f" {sp(cov['evaluations'])} cases, {sp(cov['distinct_nontrivial'])} distinct non-trivial / {e['wall_s']:.0f} s "
    cols[4] = txt
    lines[i] = "|".join(cols)
open(p, "w").write("\n".join(lines))
