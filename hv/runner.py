"""Entry point of every check:  ./check <ID> [--tier quick|thorough] [--replay FILE] [--jobs N]

Exit codes: 0 property held on everything explored; 1 violation (a `VIOLATION property=<id> replay=<path>`
line is printed for each distinct failure signature); 2 harness error (never a violation).
"""
from __future__ import annotations

import argparse
import glob
import hashlib
import importlib
import json
import os
import shutil
import subprocess
import sys
import tempfile
import time

from hv import findings as findings_mod
from hv.core import VERIF_DIR

PY = sys.executable
NPROC = min(16, os.cpu_count() or 4)


def scratch_root() -> str:
    for d in (os.environ.get("VERIF_TMP"), "/dev/shm", tempfile.gettempdir()):
        if d and os.path.isdir(d) and os.access(d, os.W_OK):
            return d
    return tempfile.gettempdir()


def run_jobs(jobs: list[dict], workdir: str, max_par: int = NPROC, timeout: float | None = None) -> list[dict]:
    """Run worker jobs, at most max_par at a time.  Each job: {mode, prop, tier, seed, shard, nshards, env, args}."""
    pending = list(enumerate(jobs))
    running = []
    results: list[dict | None] = [None] * len(jobs)
    t0 = time.time()
    while pending or running:
        while pending and len(running) < max_par:
            idx, job = pending.pop(0)
            outfile = os.path.join(workdir, f"job{idx}.json")
            env = dict(os.environ)
            env["PYTHONHASHSEED"] = "0"
            env["PYTHONPATH"] = VERIF_DIR + os.pathsep + env.get("PYTHONPATH", "")
            env["PYTHONDONTWRITEBYTECODE"] = "1"
            env["VERIF_SCRATCH"] = workdir
            env.update(job.get("env") or {})
            cmd = [
                PY, "-m", "hv.worker", job["mode"], job["prop"], job["tier"], str(job["seed"]),
                str(job["shard"]), str(job["nshards"]), outfile, json.dumps(job.get("args") or {}),
            ]
            logf = open(os.path.join(workdir, f"job{idx}.log"), "w")
            p = subprocess.Popen(cmd, env=env, cwd=VERIF_DIR, stdout=logf, stderr=subprocess.STDOUT)
            running.append((idx, p, outfile, logf))
        still = []
        for idx, p, outfile, logf in running:
            rc = p.poll()
            if rc is None:
                if timeout and time.time() - t0 > timeout:
                    p.kill()
                    p.wait()
                    logf.close()
                    results[idx] = {"harness_error": f"worker timed out after {timeout}s", "timed_out": True}
                else:
                    still.append((idx, p, outfile, logf))
                continue
            logf.close()
            if os.path.exists(outfile):
                with open(outfile) as f:
                    results[idx] = json.load(f)
            elif rc in (-4, -6, -7, -8, -11) and os.path.exists(outfile + ".current"):
                # fatal signal (SIGILL/ABRT/BUS/FPE/SEGV): the interpreter crashed while running generated cases against the
                # library; report the last case that was started as a failure of the property
                with open(outfile + ".current") as f:
                    try:
                        last = json.load(f)
                    except ValueError:
                        last = None
                sig = f"crash|signal{-rc}"
                results[idx] = {"evaluations": 1, "digests": [], "classes": {}, "samples": [],
                                "failures": {sig: {"count": 1, "spec": last, "size": 0, "message": f"worker process died with signal {-rc}; "
                                             "the last case started is saved (the crash may need the cases before it as well)"}}}
            else:
                with open(logf.name) as f:
                    tail = f.read()[-4000:]
                results[idx] = {"harness_error": f"worker exited rc={rc} without result\n{tail}"}
            with open(logf.name) as f:
                results[idx]["log_tail"] = f.read()[-2000:]
        running = still
        if running:
            time.sleep(0.05)
    return results  # type: ignore[return-value]


def merge(results: list[dict]) -> dict:
    m = {"evaluations": 0, "digests": set(), "classes": {}, "samples": [], "failures": {}, "harness_errors": [], "seeds": []}
    for r in results:
        if r.get("harness_error"):
            m["harness_errors"].append(r["harness_error"])
            continue
        m["evaluations"] += r.get("evaluations", 0)
        m["digests"].update(r.get("digests", []))
        for k, v in r.get("classes", {}).items():
            m["classes"][k] = m["classes"].get(k, 0) + v
        for s in r.get("samples", []):
            if len(m["samples"]) < 5:
                m["samples"].append(s)
        for sig, e in r.get("failures", {}).items():
            e = dict(e)
            e["origin"] = r.get("origin")
            cur = m["failures"].get(sig)
            if cur is None:
                m["failures"][sig] = e
            else:
                cur["count"] += e["count"]
                if e["size"] < cur["size"]:
                    cnt = cur["count"]
                    cur.update(e)
                    cur["count"] = cnt
        if "seed" in r:
            m["seeds"].append(r["seed"])
    return m


def write_replay(prop: str, tier: str, sig: str, entry: dict) -> str:
    d = os.path.join(VERIF_DIR, "out", "replays", prop)
    os.makedirs(d, exist_ok=True)
    h = hashlib.blake2b((sig + json.dumps(entry["spec"], sort_keys=True, default=repr)).encode(), digest_size=6).hexdigest()
    path = os.path.join(d, f"{tier}-{h}.json")
    with open(path, "w") as f:
        json.dump({"property": prop, "signature": sig, "message": entry.get("message"), "spec": entry["spec"]}, f, indent=1, default=repr)
    return path


def main(argv=None) -> int:
    ap = argparse.ArgumentParser()
    ap.add_argument("prop")
    ap.add_argument("--tier", default=os.environ.get("VERIF_TIER") or "quick", choices=["quick", "thorough"])
    ap.add_argument("--replay")
    ap.add_argument("--jobs", type=int, default=NPROC)
    ap.add_argument("--no-shrink", action="store_true")
    a = ap.parse_args(argv)
    prop = a.prop.upper()
    tier = a.tier
    try:
        seed = int(os.environ.get("VERIF_SEED") or 1)
    except ValueError:
        seed = 1
    t0 = time.time()
    mod = importlib.import_module(f"hv.props.{prop.lower()}")
    known = findings_mod.load()
    workdir = tempfile.mkdtemp(prefix=f"hv-{prop}-", dir=scratch_root())
    try:
        return _run(a, mod, prop, tier, seed, known, workdir, t0)
    finally:
        shutil.rmtree(workdir, ignore_errors=True)


def _run(a, mod, prop, tier, seed, known, workdir, t0) -> int:
    base = {"prop": prop, "tier": tier, "seed": seed}

    # ---------------------------------------------------------------- replay of one file
    if a.replay:
        path = os.path.abspath(a.replay)
        vs = mod.variants(tier) if hasattr(mod, "variants") and getattr(mod, "REPLAY_ALL_VARIANTS", False) else [{}]
        rjobs = [dict(base, mode="replay", shard=0, nshards=1, env=v.get("env"), args=dict(v.get("args") or {}, files=[path])) for v in vs]
        fails = []
        for res in run_jobs(rjobs, workdir):
            if res.get("harness_error"):
                print(res["harness_error"])
                return 2
            fails += res["per_file"][path]
        rc = 0
        seen = set()
        for f in fails:
            if f["sig"] in seen:
                continue
            seen.add(f["sig"])
            kf = findings_mod.match_open(known, prop, f["sig"])
            if kf:
                print(f"KNOWN-FINDING: property={prop} {kf.what}")
                continue
            print(f"  {f['sig']}: {f['message']}")
            print(f"VIOLATION property={prop} replay={path}")
            rc = 1
        if not fails:
            print(f"replay {path}: property held")
        return rc

    # ---------------------------------------------------------------- replay tier + search
    variants = mod.variants(tier) if hasattr(mod, "variants") else [{}]
    jobs = []
    files = sorted(glob.glob(os.path.join(VERIF_DIR, "replays", prop, "*.json")))
    if files:
        for v in variants if getattr(mod, "REPLAY_ALL_VARIANTS", False) else variants[:1]:
            jobs.append(dict(base, mode="replay", shard=0, nshards=1, env=v.get("env"), args=dict(v.get("args") or {}, files=files), origin="replay"))
    per_variant = max(1, a.jobs // len(variants))
    if hasattr(mod, "shards"):
        per_variant = mod.shards(tier)
    if hasattr(mod, "exhaustive"):
        nsh = max(1, min(a.jobs, getattr(mod, "EXHAUSTIVE_SHARDS", a.jobs)))
        for s in range(nsh):
            jobs.append(dict(base, mode="exhaustive", shard=s, nshards=nsh, origin="exhaustive"))
    for vi, v in enumerate(variants):
        nsh_v = v.get("shards", per_variant)  # a variant may ask for its own share of the worker processes
        for s in range(nsh_v):
            extra = {"seed_salt": vi * 7919} if getattr(mod, "VARIANT_DISTINCT_SEEDS", False) else {}
            jobs.append(dict(base, mode="search", shard=s, nshards=nsh_v, env=v.get("env"),
                             args=dict(v.get("args") or {}, variant=v.get("name", str(vi)), **extra), origin=f"search:{v.get('name', vi)}:{s}"))
    results = run_jobs(jobs, workdir, a.jobs)
    for j, r in zip(jobs, results):
        r["origin"] = j
    m = merge(results)

    if hasattr(mod, "extra_campaign"):
        extra_fail, extra_stats = mod.extra_campaign(tier, seed, workdir, a.jobs)
        m["extra_stats"] = extra_stats
        for sig, e in extra_fail.items():
            if e.get("harness"):
                m["harness_errors"].append(f"{sig}: {e['message']}")
            else:
                m["failures"][sig] = e
                m["evaluations"] += 1

    if m["harness_errors"]:
        for h in m["harness_errors"][:3]:
            print("HARNESS ERROR:\n" + h)
        write_evidence(mod, prop, tier, seed, m, t0, violations=0, known_hits=[], note="harness error")
        return 2

    # ---------------------------------------------------------------- classify failures
    violations = []
    known_hits = {}
    for sig, e in sorted(m["failures"].items()):
        kf = findings_mod.match_open(known, prop, sig)
        if kf:
            known_hits.setdefault(kf.what, 0)
            known_hits[kf.what] += e["count"]
        else:
            violations.append((sig, e))

    # shrink unknown failures found by the random search (bounded), in parallel
    if violations and not a.no_shrink and not hasattr(mod, "run_shard"):
        budget_s = 25 if tier == "quick" else 120
        sjobs = []
        for sig, e in violations[:8]:
            o = e.get("origin") or {}
            if o.get("mode") != "search":
                continue
            sjobs.append((sig, dict(base, mode="shrink", shard=o["shard"], nshards=o["nshards"], env=o.get("env"),
                                    args=dict(o.get("args") or {}, sig=sig, budget_s=budget_s))))
        if sjobs:
            sres = run_jobs([j for _, j in sjobs], workdir, a.jobs, timeout=budget_s * 6 + 60)
            for (sig, _), r in zip(sjobs, sres):
                b = (r or {}).get("best") or {}
                if b.get("spec") is not None:
                    for vs, e in violations:
                        if vs == sig and b["size"] <= e["size"]:
                            e.update(spec=b["spec"], size=b["size"], message=b["message"], shrunk=True)

    for what, cnt in sorted(known_hits.items()):
        print(f"KNOWN-FINDING: property={prop} {what} (reproduced {cnt}x)")
    rc = 0
    for sig, e in violations:
        path = write_replay(prop, tier, sig, e)
        print(f"  signature: {sig}  (seen {e['count']}x)")
        print(f"  {e.get('message')}")
        print(f"VIOLATION property={prop} replay={path}")
        rc = 1
    write_evidence(mod, prop, tier, seed, m, t0, violations=len(violations), known_hits=sorted(known_hits))
    if rc == 0:
        print(f"{prop} {tier}: {m['evaluations']} cases, {len(m['digests'])} distinct non-trivial, "
              f"{time.time() - t0:.1f}s, no violation")
    return rc


def write_evidence(mod, prop, tier, seed, m, t0, violations, known_hits, note=None) -> None:
    ev = {
        "property_id": prop,
        "tier": tier,
        "seed": seed,
        "level": "exploration",
        "coverage": {
            "evaluations": m["evaluations"],
            "distinct_nontrivial": len(m["digests"]),
            "rule": getattr(mod, "RULE", ""),
            "samples": m["samples"],
            "classes": dict(sorted(m["classes"].items())),
            "failure_signatures": sorted(m["failures"].keys()),
            "known_findings_reproduced": known_hits,
            "worker_seeds": sorted(m["seeds"]),
            "exhaustive": False,
        },
        "assumptions": list(getattr(mod, "ASSUMPTIONS", [])),
        "wall_s": round(time.time() - t0, 2),
        "violations": violations,
    }
    if m.get("extra_stats"):
        ev["coverage"].update(m["extra_stats"])
        ev["coverage"]["evaluations"] += int(m["extra_stats"].get("fuzz_executions", 0))
    if hasattr(mod, "extra_evidence"):
        try:
            ev["coverage"].update(mod.extra_evidence())
        except Exception as e:  # noqa: BLE001 - reporting only
            ev["coverage"]["extra_evidence_error"] = repr(e)
    if hasattr(mod, "EXHAUSTIVE_NOTE"):
        ev["coverage"]["exhaustive_subdomains"] = mod.EXHAUSTIVE_NOTE
    if note:
        ev["coverage"]["note"] = note
    # evidence describes runs against /repo itself; runs against a scratch copy (tools/, VERIF_REPO) go elsewhere
    d = os.path.join(VERIF_DIR, "out", "evidence-scratch") if os.environ.get("VERIF_REPO") or os.environ.get("VERIF_EVIDENCE_SCRATCH") else os.path.join(VERIF_DIR, "evidence")
    os.makedirs(d, exist_ok=True)
    tmp = os.path.join(d, f".{prop}.json.tmp")
    with open(tmp, "w") as f:
        json.dump(ev, f, indent=1, default=repr)
    os.replace(tmp, os.path.join(d, f"{prop}.json"))


if __name__ == "__main__":
    sys.exit(main())
