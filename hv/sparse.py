"""In-memory sparse virtual files, content providers and reference models.

A `SparseFile` is a read-only, seekable file-like object made of non
overlapping extents (offset -> provider).  Holes read as zeros.  Offsets are
Python ints, so a table at 2**45 costs nothing.  It counts reads and records
every attempt to write / truncate (C09) and can be armed with an I/O budget
(C13).  The same extent map, without the file API, is the reference *model*
of guest-visible content (`Extents.read`).
"""
from __future__ import annotations

import bisect
import hashlib
import io
import struct

SECTOR = 512

_RAMPS: dict[int, bytes] = {}


def _ramp(k: int) -> bytes:
    r = _RAMPS.get(k)
    if r is None:
        r = bytes((((i >> 3) * 5 + 7) ^ k) & 0xFF for i in range(SECTOR - 16))  # runs of 8: deflate-friendly
        _RAMPS[k] = r
    return r


FLAVOURS = False  # set per case by the worker from spec["flavours"]: some units then hold content of a special shape (below)


def flavour(key: int) -> str | None:
    """Content flavour of unit `key` when FLAVOURS is on — a pure function of the key, so image and model agree:
    about 9 % of the units start with 20 all-zero sectors ('zero-head': data that begins like a hole), 5 % are entirely zero and
    3 % entirely 0xFF (stored data that equals what a reader would synthesise)."""
    if not FLAVOURS:
        return None
    h = ((key & 0xFFFFFFFFFFFFFFFF) * 0x9E3779B97F4A7C15 >> 24) & 0xFF
    if h < 24:
        return "zero-head"
    if h < 36:
        return "zero"
    if h < 44:
        return "ff"
    return None


def pattern(key: int, off: int, n: int) -> bytes:
    fl = flavour(key) if FLAVOURS else None
    if fl is None:
        return _pattern(key, off, n)
    if n <= 0:
        return b""
    if fl == "zero":
        return bytes(n)
    if fl == "ff":
        return b"\xff" * n
    head = 20 * SECTOR
    # zero-head
    if off >= head:
        return _pattern(key, off, n)
    z = min(n, head - off)
    return bytes(z) + (_pattern(key, off + z, n - z) if n > z else b"")


def _pattern(key: int, off: int, n: int) -> bytes:
    """Bytes [off, off+n) of the infinite pattern stream of unit `key`.

    Every 512-byte sector is pack('<QQ', key, sector_index) + a byte ramp that
    depends on key and sector index: two units never share content, all sectors
    of a unit differ, and any byte shift is visible.
    """
    if n <= 0:
        return b""
    s0 = off // SECTOR
    s1 = (off + n + SECTOR - 1) // SECTOR
    pk = struct.Struct("<QQ").pack
    key &= 0xFFFFFFFFFFFFFFFF
    parts = [pk(key, s) + _ramp((key * 31 + s * 17) & 0xFF) for s in range(s0, s1)]
    buf = b"".join(parts)
    lo = off - s0 * SECTOR
    return buf[lo : lo + n]


def rnd_bytes(key: int, n: int) -> bytes:
    """Pseudo-random (incompressible) bytes, a pure function of key."""
    return hashlib.shake_256(b"hv-rnd" + struct.pack("<Q", key & 0xFFFFFFFFFFFFFFFF)).digest(n)


class Provider:
    length: int

    def read(self, off: int, n: int) -> bytes:  # pragma: no cover
        raise NotImplementedError


class Zero(Provider):
    __slots__ = ("length",)

    def __init__(self, length: int):
        self.length = length

    def read(self, off, n):
        return bytes(n)


class Lit(Provider):
    __slots__ = ("data", "length")

    def __init__(self, data: bytes):
        self.data = bytes(data)
        self.length = len(self.data)

    def read(self, off, n):
        return self.data[off : off + n]


class Pat(Provider):
    """`length` bytes of pattern(key) starting at stream offset `base`."""

    __slots__ = ("key", "base", "length")

    def __init__(self, key: int, length: int, base: int = 0):
        self.key = key
        self.base = base
        self.length = length

    def read(self, off, n):
        return pattern(self.key, self.base + off, n)


class Mix(Provider):
    """Pattern for the first `plen` bytes, pseudo-random afterwards (controls deflate size)."""

    __slots__ = ("key", "length", "plen", "_rnd")

    def __init__(self, key: int, length: int, plen: int):
        self.key = key
        self.length = length
        self.plen = min(plen, length)
        self._rnd = None

    def read(self, off, n):
        n = min(n, self.length - off)
        out = []
        if off < self.plen:
            k = min(n, self.plen - off)
            out.append(pattern(self.key, off, k))
            off += k
            n -= k
        if n > 0:
            if self._rnd is None:
                self._rnd = rnd_bytes(self.key, self.length - self.plen)
            o = off - self.plen
            out.append(self._rnd[o : o + n])
        return b"".join(out)


class Sub(Provider):
    """A window into another extent map / provider-like object with .read(off, n)."""

    __slots__ = ("src", "base", "length")

    def __init__(self, src, base: int, length: int):
        self.src = src
        self.base = base
        self.length = length

    def read(self, off, n):
        return self.src.read_at(self.base + off, n)


class OverlapError(Exception):
    """Builder bug: two extents overlap (harness error, never a violation)."""


class Extents:
    """Sorted, non-overlapping extent map with zero-filled holes."""

    def __init__(self, size: int | None = None):
        self.size = size
        self._offs: list[int] = []
        self._provs: list[Provider] = []

    def put(self, off: int, prov: Provider | bytes) -> None:
        if isinstance(prov, (bytes, bytearray)):
            prov = Lit(prov)
        if prov.length == 0:
            return
        if off < 0:
            raise OverlapError(f"negative offset {off}")
        i = bisect.bisect_right(self._offs, off)
        if i > 0 and self._offs[i - 1] + self._provs[i - 1].length > off:
            raise OverlapError(f"extent at {off:#x} overlaps previous at {self._offs[i - 1]:#x}")
        if i < len(self._offs) and off + prov.length > self._offs[i]:
            raise OverlapError(f"extent at {off:#x}+{prov.length:#x} overlaps next at {self._offs[i]:#x}")
        self._offs.insert(i, off)
        self._provs.insert(i, prov)

    def free(self, off: int, length: int) -> bool:
        """True if [off, off+length) does not intersect any extent."""
        i = bisect.bisect_right(self._offs, off)
        if i > 0 and self._offs[i - 1] + self._provs[i - 1].length > off:
            return False
        return not (i < len(self._offs) and off + length > self._offs[i])

    @property
    def end(self) -> int:
        """One past the last byte covered by an extent."""
        if not self._offs:
            return 0
        return self._offs[-1] + self._provs[-1].length

    def allocated_bytes(self) -> int:
        return sum(p.length for p in self._provs)

    def read_at(self, off: int, n: int) -> bytes:
        """Bytes [off, off+n), clipped to `size` when set; holes are zeros."""
        if self.size is not None:
            n = min(n, self.size - off)
        if n <= 0:
            return b""
        out = []
        pos = off
        end = off + n
        i = bisect.bisect_right(self._offs, pos) - 1
        if i < 0:
            i = 0
        while pos < end and i < len(self._offs):
            eo = self._offs[i]
            p = self._provs[i]
            ee = eo + p.length
            if ee <= pos:
                i += 1
                continue
            if eo >= end:
                break
            if eo > pos:
                out.append(bytes(eo - pos))
                pos = eo
            k = min(end, ee) - pos
            chunk = p.read(pos - eo, k)
            if len(chunk) != k:
                raise OverlapError(f"provider short read at {pos:#x}: {len(chunk)} != {k}")
            out.append(chunk)
            pos += k
            i += 1
        if pos < end:
            out.append(bytes(end - pos))
        return b"".join(out)


WRITE_LOG: list = []  # every write/truncate attempt on any SparseFile of this process (read by C09)


class BudgetExceeded(IOError):
    """Raised by SparseFile when the armed I/O budget is exceeded, or a single read is absurdly large."""


class InjectedFault(OSError):
    """The one-shot transient I/O error a SparseFile raises when armed (fault_in): the caller's storage hiccups once."""


MAX_SINGLE_READ = 1 << 28  # 256 MiB: a single fh.read() this large means the library scans / slurps


class SparseFile(Extents):
    """Read-only seekable file object over an extent map.  Records mutation attempts, counts I/O."""

    def __init__(self, size: int = 0, name: str | None = None):
        super().__init__(size)
        self._pos = 0
        if name is not None:
            self.name = name
        self.n_reads = 0
        self.bytes_read = 0
        self.max_off = 0
        self.writes: list[tuple] = []
        self.budget: int | None = None
        self.forbidden: list[tuple[int, int]] = []  # ranges that must never be touched (C13)
        self.touched_forbidden: list[tuple[int, int]] = []
        self.closed = False
        self.fault_in: int | None = None  # armed: the fault_in-th read() call from now raises InjectedFault once
        self.fault_fired = False

    # -- building helpers -------------------------------------------------
    def grow(self, size: int) -> None:
        if size > self.size:
            self.size = size

    def put(self, off, prov):
        super().put(off, prov)
        ln = len(prov) if isinstance(prov, (bytes, bytearray)) else prov.length
        if off + ln > self.size:
            self.size = off + ln

    def reset_counters(self) -> None:
        self.n_reads = 0
        self.bytes_read = 0
        self.max_off = 0
        self.touched_forbidden = []

    # -- file API ----------------------------------------------------------
    def readable(self):
        return True

    def seekable(self):
        return True

    def writable(self):
        return False

    def tell(self):
        return self._pos

    def seek(self, off, whence=io.SEEK_SET):
        off = int(off)
        if whence == io.SEEK_SET:
            if off < 0:
                raise ValueError(f"negative seek value {off}")
            self._pos = off
        elif whence == io.SEEK_CUR:
            self._pos = max(0, self._pos + off)
        elif whence == io.SEEK_END:
            self._pos = max(0, self.size + off)
        else:
            raise ValueError(f"invalid whence ({whence})")
        return self._pos

    def read(self, n=-1):
        if n is None or n < 0:
            n = max(0, self.size - self._pos)
        n = min(n, max(0, self.size - self._pos))
        if n > MAX_SINGLE_READ:
            raise BudgetExceeded(f"single read of {n} bytes at {self._pos:#x}")
        if self.fault_in is not None:
            self.fault_in -= 1
            if self.fault_in <= 0:
                self.fault_in = None
                self.fault_fired = True
                import errno

                raise InjectedFault(errno.EIO, "Input/output error (injected once)")
        self.n_reads += 1
        self.bytes_read += n
        if self.budget is not None and self.bytes_read > self.budget:
            raise BudgetExceeded(f"I/O budget of {self.budget} bytes exceeded")
        if n and self.forbidden:
            a, b = self._pos, self._pos + n
            for fa, fb in self.forbidden:
                if a < fb and fa < b:
                    self.touched_forbidden.append((a, n))
                    break
        data = self.read_at(self._pos, n)
        self._pos += len(data)
        if self._pos > self.max_off:
            self.max_off = self._pos
        return data

    def readinto(self, b):
        data = self.read(len(b))
        b[: len(data)] = data
        return len(data)

    def write(self, data):
        self.writes.append(("write", self._pos, len(data)))
        WRITE_LOG.append(("write", getattr(self, "name", None), self._pos, len(data)))
        raise io.UnsupportedOperation("write")

    def writelines(self, lines):
        self.writes.append(("writelines", self._pos))
        WRITE_LOG.append(("writelines", getattr(self, "name", None), self._pos))
        raise io.UnsupportedOperation("writelines")

    def truncate(self, size=None):
        self.writes.append(("truncate", size))
        WRITE_LOG.append(("truncate", getattr(self, "name", None), size))
        raise io.UnsupportedOperation("truncate")

    def flush(self):
        pass

    def close(self):
        self.closed = True

    def fileno(self):
        raise io.UnsupportedOperation("fileno")

    def __enter__(self):
        return self

    def __exit__(self, *a):
        self.close()

    def materialize(self, limit: int = 1 << 28) -> bytes:
        """Whole file as bytes (for mutation / writing to disk); refuses huge files."""
        if self.size > limit:
            raise OverlapError(f"materialize: file of {self.size} bytes too large")
        return self.read_at(0, self.size)

    def write_to(self, path) -> None:
        """Write to a real file, leaving holes as holes."""
        with open(path, "wb") as f:
            f.truncate(self.size)
            for off, p in zip(self._offs, self._provs):
                f.seek(off)
                pos = 0
                while pos < p.length:
                    k = min(1 << 22, p.length - pos)
                    f.write(p.read(pos, k))
                    pos += k


class Overlay:
    """Reference model of a layer chain: layers[0] is the top.  In each layer (an `Extents`), an extent holds
    the sector (data or explicit Zero), a hole is transparent.  Below the base, and beyond a layer's own
    `size`, everything is zeros."""

    def __init__(self, layers: list[Extents], size: int):
        self.layers = layers
        self.size = size

    def read_at(self, off: int, n: int) -> bytes:
        n = min(n, self.size - off)
        if n <= 0:
            return b""
        return self._read(0, off, n)

    def _read(self, li: int, off: int, n: int) -> bytes:
        if li >= len(self.layers):
            return bytes(n)
        lay = self.layers[li]
        if lay.size is not None and off + n > lay.size:
            if off >= lay.size:
                return bytes(n)
            k = lay.size - off
            return self._read(li, off, k) + bytes(n - k)
        out = []
        pos = off
        end = off + n
        i = bisect.bisect_right(lay._offs, pos) - 1
        if i < 0:
            i = 0
        while pos < end and i < len(lay._offs):
            eo = lay._offs[i]
            p = lay._provs[i]
            ee = eo + p.length
            if ee <= pos:
                i += 1
                continue
            if eo >= end:
                break
            if eo > pos:
                out.append(self._read(li + 1, pos, eo - pos))
                pos = eo
            k = min(end, ee) - pos
            out.append(p.read(pos - eo, k))
            pos += k
            i += 1
        if pos < end:
            out.append(self._read(li + 1, pos, end - pos))
        return b"".join(out)

    def sources(self, off: int, n: int) -> set[int]:
        """Indices of the layers (len(layers) = 'below base') that a read of [off, off+n) draws from."""
        res: set[int] = set()
        n = min(n, self.size - off)
        if n > 0:
            self._sources(0, off, n, res)
        return res

    def _sources(self, li, off, n, res):
        if li >= len(self.layers):
            res.add(li)
            return
        lay = self.layers[li]
        pos, end = off, off + n
        i = max(0, bisect.bisect_right(lay._offs, pos) - 1)
        while pos < end and i < len(lay._offs):
            eo = lay._offs[i]
            ee = eo + lay._provs[i].length
            if ee <= pos:
                i += 1
                continue
            if eo >= end:
                break
            if eo > pos:
                self._sources(li + 1, pos, eo - pos, res)
                pos = eo
            res.add(li)
            pos = min(end, ee)
            i += 1
        if pos < end:
            self._sources(li + 1, pos, end - pos, res)


def copy_shifted(src: Extents, dest: Extents, base: int, limit: int | None = None) -> None:
    """Copy the extents of `src` into `dest` at offset `base` (holes stay holes); clip to `limit` bytes of src."""
    for off, p in zip(src._offs, src._provs):
        ln = p.length
        if limit is not None:
            if off >= limit:
                break
            ln = min(ln, limit - off)
        if ln == p.length:
            dest.put(base + off, p)
        else:
            dest.put(base + off, Sub(_ProvView(p), 0, ln))


class _ProvView:
    def __init__(self, p):
        self.p = p

    def read_at(self, off, n):
        return self.p.read(off, n)
