#!/venv/bin/python
"""Coverage-guided fuzzing target for C11 (atheris / libFuzzer), one process per seed artefact.

usage: fuzz_c11.py <seed name> <corpus dir> <artifact dir> <runs> <seed> <max_total_time>
The oracle inside the target is the C11 one, reduced to what libFuzzer can enforce per input: the driver must return or
raise (any exception is swallowed) within -timeout seconds, without a single allocation above -malloc_limit_mb and
within -rss_limit_mb.  libFuzzer writes the offending input to the artifact directory and exits non-zero.
"""
import os
import sys

sys.path.insert(0, os.path.join(os.path.dirname(os.path.dirname(os.path.abspath(__file__))), ".deps"))
sys.path.insert(0, os.path.dirname(os.path.dirname(os.path.abspath(__file__))))

import atheris  # noqa: E402

from hv import core  # noqa: E402

with atheris.instrument_imports(include=["dissect.hypervisor"]):
    core.ensure_repo_import()
    import dissect.hypervisor.descriptor.hyperv  # noqa: F401
    import dissect.hypervisor.descriptor.vmx  # noqa: F401
    import dissect.hypervisor.disk.hdd  # noqa: F401
    import dissect.hypervisor.disk.qcow2  # noqa: F401
    import dissect.hypervisor.disk.vdi  # noqa: F401
    import dissect.hypervisor.disk.vhd  # noqa: F401
    import dissect.hypervisor.disk.vhdx  # noqa: F401
    import dissect.hypervisor.disk.vmdk  # noqa: F401
    import dissect.hypervisor.util.envelope  # noqa: F401
    import dissect.hypervisor.util.vmtar  # noqa: F401

from hv.props import c11  # noqa: E402


def main():
    name, corpus, art, runs, seed, tmax = sys.argv[1:7]
    kind, data, unit, fields = c11.seeds()[name]
    os.makedirs(corpus, exist_ok=True)
    os.makedirs(art, exist_ok=True)
    with open(os.path.join(corpus, "seed"), "wb") as f:
        f.write(data)

    def one(buf):
        try:
            c11.drive(kind, bytes(buf), {})
        except (KeyboardInterrupt, SystemExit):
            raise
        except BaseException:  # noqa: BLE001 - returns-or-raises
            pass
        finally:
            core.release_tracked()

    argv = [sys.argv[0], corpus, f"-runs={runs}", f"-seed={seed}", "-timeout=10", "-rss_limit_mb=1024", "-malloc_limit_mb=100",
            f"-max_total_time={tmax}", f"-artifact_prefix={art}/", f"-max_len={len(data) + 4096}", "-print_final_stats=1", "-verbosity=0"]
    atheris.Setup(argv, one)
    atheris.Fuzz()


if __name__ == "__main__":
    main()
