"""KNOWN_FINDINGS.txt: genuine defects that were fixed (`fixed:`) or recorded (`open:`).

Line formats (one finding per line, '#' comments):

  fixed: property=<id> <commit> <what failed>
  open: property=<id> sig=<fnmatch glob over failure signatures> :: <what fails>

`fixed` entries suppress nothing.  An `open` entry turns failures whose signature matches the glob into a
`KNOWN-FINDING:` line; any other signature is still a VIOLATION.  The file is never written at run time.
"""
from __future__ import annotations

import fnmatch
import os
import re
from dataclasses import dataclass

from hv.core import VERIF_DIR

PATH = os.path.join(VERIF_DIR, "KNOWN_FINDINGS.txt")

_OPEN = re.compile(r"^open:\s+property=(\S+)\s+sig=(\S+)\s+::\s+(.*)$")
_FIXED = re.compile(r"^fixed:\s+property=(\S+)\s+(\S+)\s+(.*)$")


@dataclass
class Finding:
    status: str
    prop: str
    sig: str | None
    commit: str | None
    what: str


def load(path: str = PATH) -> list[Finding]:
    out = []
    if not os.path.exists(path):
        return out
    with open(path) as f:
        for line in f:
            line = line.strip()
            if not line or line.startswith("#"):
                continue
            m = _OPEN.match(line)
            if m:
                out.append(Finding("open", m.group(1), m.group(2), None, m.group(3)))
                continue
            m = _FIXED.match(line)
            if m:
                out.append(Finding("fixed", m.group(1), None, m.group(2), m.group(3)))
                continue
            raise ValueError(f"unparseable line in {path}: {line!r}")
    return out


def match_open(findings: list[Finding], prop: str, sig: str) -> Finding | None:
    for f in findings:
        if f.status == "open" and f.prop == prop and fnmatch.fnmatchcase(sig, f.sig):
            return f
    return None


def open_sigs(prop: str) -> list[str]:
    """Signature globs of the open findings of a property (strategies use this to exclude by construction)."""
    return [f.sig for f in load() if f.status == "open" and f.prop == prop]
