"""sys.addaudithook based recorder of file-system mutations performed while library code is on the stack (C09)."""
from __future__ import annotations

import os
import sys

LIBROOT = os.sep + os.path.join("dissect", "hypervisor") + os.sep
STATE = {"active": False, "installed": False, "events": [], "opens": {}, "allow": set()}
WRITE_FLAGS = os.O_WRONLY | os.O_RDWR | os.O_CREAT | os.O_TRUNC | os.O_APPEND
MUTATING = {"os.remove", "os.rename", "os.truncate", "os.mkdir", "os.rmdir", "os.chmod", "os.chown", "os.utime", "os.link", "os.symlink",
            "shutil.copyfile", "shutil.copymode", "shutil.copystat", "shutil.copytree", "shutil.move", "shutil.rmtree", "shutil.chown",
            "shutil.make_archive", "shutil.unpack_archive", "tempfile.mkstemp", "tempfile.mkdtemp", "os.mkfifo", "os.mknod", "os.setxattr",
            "os.removexattr", "os.putenv", "os.posix_spawn", "os.exec", "os.fork", "os.system", "subprocess.Popen"}


def library_site():
    """'<file>:<line>' of the innermost dissect.hypervisor frame on the stack, or None."""
    f = sys._getframe(2)
    while f is not None:
        fn = f.f_code.co_filename
        if LIBROOT in fn:
            return f"{os.path.basename(fn)}:{f.f_lineno}"
        f = f.f_back
    return None


def _cli_output():
    """The file the user of the decrypt command-line tool named with -o / --output (the only output ever allowed)."""
    argv = sys.argv
    for i, a in enumerate(argv[:-1]):
        if a in ("-o", "--output"):
            return argv[i + 1]
    return None


def _hook(event, args):
    if not STATE["active"]:
        return
    if event == "open":
        path, mode, flags = (list(args) + [None, None, None])[:3]
        site = library_site()
        if site is None:
            return
        writeish = False
        if isinstance(mode, str) and any(c in mode for c in "wax+"):
            writeish = True
        if isinstance(flags, int) and flags & WRITE_FLAGS:
            writeish = True
        if writeish:
            cli_out = _cli_output()
            if str(path) in STATE["allow"] or str(path) == cli_out:
                return
            if cli_out and os.path.isdir(cli_out) and os.path.dirname(os.path.abspath(str(path))) == os.path.abspath(cli_out):
                return  # the user named a directory: a file created inside it is requested output

            STATE["events"].append(("open-for-writing", str(path), str(mode), site))
        elif isinstance(path, (str, bytes, os.PathLike)):
            STATE["opens"][site] = STATE["opens"].get(site, 0) + 1
    elif event == "mmap.__new__":
        site = library_site()
        if site is not None and len(args) >= 3 and args[2] not in (1,):  # mmap.ACCESS_READ == 1
            STATE["events"].append(("mmap-writable", repr(args[:3]), "", site))
    elif event in MUTATING:
        site = library_site()
        if site is not None:
            STATE["events"].append((event, repr(args)[:120], "", site))


def install():
    if not STATE["installed"]:
        sys.addaudithook(_hook)
        STATE["installed"] = True


class recording:
    def __init__(self, allow=()):
        self.allow = set(allow)

    def __enter__(self):
        install()
        STATE["events"] = []
        STATE["opens"] = {}
        STATE["allow"] = self.allow
        STATE["active"] = True
        return STATE

    def __exit__(self, *a):
        STATE["active"] = False
