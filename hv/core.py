"""Shared vocabulary of the checks: outcomes, failure signatures, calling into the library."""
from __future__ import annotations

import hashlib
import json
import io
import os
import sys
import traceback
from dataclasses import dataclass, field

VERIF_DIR = os.path.dirname(os.path.dirname(os.path.abspath(__file__)))
REPO_DIR = os.environ.get("VERIF_REPO") or "/repo"


def ensure_repo_import():
    """Make sure `dissect.hypervisor` is imported from REPO_DIR (the working tree under test)."""
    want = os.path.realpath(os.path.join(REPO_DIR, "dissect", "hypervisor"))
    if "dissect.hypervisor" not in sys.modules and os.environ.get("VERIF_REPO"):
        import importlib.util

        import dissect  # noqa: F401  (namespace package)

        spec = importlib.util.spec_from_file_location(
            "dissect.hypervisor", os.path.join(want, "__init__.py"), submodule_search_locations=[want]
        )
        mod = importlib.util.module_from_spec(spec)
        sys.modules["dissect.hypervisor"] = mod
        spec.loader.exec_module(mod)
    import dissect.hypervisor as dh

    got = os.path.realpath(os.path.dirname(dh.__file__))
    if got != want:
        raise HarnessError(f"dissect.hypervisor imported from {got}, expected {want}")
    return dh


class HarnessError(Exception):
    """Something is wrong with the machinery (never reported as a violation)."""


class CaseTimeout(BaseException):
    """Raised asynchronously (ITIMER_PROF) when one case burns more CPU than the per-case budget."""


@dataclass
class Failure:
    sig: str
    message: str


@dataclass
class Outcome:
    nontrivial: bool = False
    classes: list = field(default_factory=list)
    failures: list = field(default_factory=list)

    def fail(self, sig: str, message: str) -> None:
        self.failures.append(Failure(sig, message[:2000]))

    def cls(self, *names: str) -> None:
        self.classes.extend(names)


def spec_digest(spec) -> str:
    return hashlib.blake2b(json.dumps(spec, sort_keys=True, default=repr).encode(), digest_size=8).hexdigest()


def spec_size(spec) -> int:
    return len(json.dumps(spec, sort_keys=True, default=repr))


_LIBROOT = os.sep + os.path.join("dissect", "hypervisor") + os.sep


def exc_frame(exc: BaseException, outermost: bool = False) -> str:
    """'<file>:<function>' of the innermost (or outermost) dissect.hypervisor frame of the traceback."""
    tb = traceback.extract_tb(exc.__traceback__)
    pick = None
    for fr in tb:
        if _LIBROOT in fr.filename:
            pick = fr
            if outermost:
                break
    if pick is None and getattr(exc, "in_lib_call", None):
        return str(exc.in_lib_call)
    if pick is None and tb:
        pick = tb[-1]
    if pick is None:
        return "?"
    return f"{os.path.basename(pick.filename)}:{pick.name}"


def in_library(exc: BaseException) -> bool:
    if getattr(exc, "in_lib_call", None):
        return True
    return any(_LIBROOT in fr.filename for fr in traceback.extract_tb(exc.__traceback__))


class LibRaised(Exception):
    """Wrapper carrying an exception that escaped from library code."""

    def __init__(self, exc: BaseException):
        super().__init__(repr(exc))
        self.exc = exc
        self.kind = type(exc).__name__
        self.frame = exc_frame(exc)

    def sig(self, tag: str) -> str:
        return f"exc|{tag}|{self.kind}|{self.frame}"

    def describe(self) -> str:
        return f"{self.kind}: {self.exc} @ {self.frame}"


def lib(fn, *args, **kwargs):
    """Call library code.  Returns (value, None) or (None, LibRaised).  SystemExit is an outcome too (the command-line tool leaves
    through argparse's parser.exit / parser.error)."""
    try:
        return fn(*args, **kwargs), None
    except KeyboardInterrupt:
        raise
    except HarnessError:
        raise
    except CaseTimeout:
        raise  # handled by the worker (hang|<frame> failure, or harness error outside library code)
    except BaseException as e:  # noqa: BLE001 - any exception type is a library outcome
        return None, LibRaised(e)


# the package's convention for its per-module logging switches (read at import time): DISSECT_LOG_<MODULE>=<level>; two modules
# have one today, the variant sets the name for every module so that a switch added later is on as well
DEBUG_LOG_ENV = {f"DISSECT_LOG_{m}": "DEBUG" for m in ("VMDK", "VHDX", "VHD", "VDI", "HDD", "HDS", "QCOW2", "HYPERV", "OVF", "PVS", "VBOX", "VMX",
                                                       "ENVELOPE", "VMTAR", "HYPERVISOR")}


def lib_delegating(tag: str, fn, *args, **kwargs):
    """lib() for library entry points that hand the work to a standard-library object they configure (vmtar.open returns a
    tarfile.TarFile): a per-case CPU budget overrun inside the call is charged to the library although no library frame is on
    the stack at that moment."""
    try:
        return lib(fn, *args, **kwargs)
    except CaseTimeout as e:
        e.in_lib_call = tag
        raise


def case_dir(prefix: str, root: str | None = None) -> str:
    """A scratch directory for one case.  Every case of a worker process gets the SAME path again (the caller removes the
    directory when the case is over; the first free of <root>/<prefix>-p<pid>/case0..7 is taken, so directories that are alive
    at the same time still differ): a path that held one descriptor / parent / image a moment ago now holds another, which is
    what a long-running caller sees when files are replaced, and what a cache keyed by path alone gets wrong."""
    import tempfile

    root = root or os.environ.get("VERIF_SCRATCH") or ("/dev/shm" if os.path.isdir("/dev/shm") else tempfile.gettempdir())
    base = os.path.join(root, f"{prefix}-p{os.getpid()}")
    os.makedirs(base, exist_ok=True)
    for k in range(8):
        d = os.path.join(base, f"case{k}")
        try:
            os.mkdir(d)
            return d
        except FileExistsError:
            continue
    return tempfile.mkdtemp(prefix="case-", dir=base)


class MinimalHandle:
    """A caller-side file object with nothing but read / seek / tell / close (no readinto, seekable, fileno, name, peek ...), as a
    hand-written window onto a container file or an mmap-like object would be.  `seek_returns_none` mimics objects whose seek()
    returns nothing (mmap.mmap before Python 3.13)."""

    def __init__(self, data: bytes, pos: int = 0, seek_returns_none: bool = False):
        self._b = io.BytesIO(data)
        self._b.seek(pos)
        self._none = seek_returns_none

    def read(self, n=-1):
        return self._b.read(n)

    def seek(self, off, whence=0):
        r = self._b.seek(off, whence)
        return None if self._none else r

    def tell(self):
        return self._b.tell()

    def close(self):
        pass

    def getvalue(self):
        return self._b.getvalue()


def also_minimal(out, spec, fh, open_fn, model, requests, tag, limit: int = 4 << 20):
    """If the case asks for it (spec["via_minimal"]) and the image is small, open the same bytes once more through a
    MinimalHandle and compare a few reads: the readers get by with read / seek / tell."""
    how = spec.get("via_minimal")
    if not how or out.failures or fh.size > limit:
        return
    if how == "reopen":
        # the caller keeps its file object longer than a reader: a first reader is opened, used and dropped, a second one is
        # opened on the same object
        import gc

        out.cls("reader-dropped-and-reopened")
        h = io.BytesIO(fh.materialize(limit))
        v, err = lib(open_fn, h)
        if err:
            out.fail(err.sig(tag + "-reopen-first"), f"open raised {err.describe()}")
            return
        check_reads(out, v, model, requests[:1], tag + "-reopen-first")
        del v
        gc.collect(1)  # young generations: the objects of this case (a full collection costs ~50 ms in a Hypothesis process)
        if h.closed:
            out.fail(f"mutated|{tag}-supplied-handle-closed", "the caller's file object was closed when the reader on it was dropped")
            return
        h.seek(0)
        v, err = lib(open_fn, h)
        if err:
            out.fail(err.sig(tag + "-reopen"), f"second open on the same file object raised {err.describe()}")
            return
        check_reads(out, v, model, requests[:4], tag + "-reopen")
        return
    if how == "tempfile":
        # an anonymous temporary file (tempfile.TemporaryFile(), os.fdopen(fd)): a real file object whose .name is a descriptor number
        import tempfile

        out.cls("via-anonymous-tempfile")
        with tempfile.TemporaryFile(dir="/dev/shm" if os.path.isdir("/dev/shm") else None) as tf:
            tf.write(fh.materialize(limit))
            tf.seek(0)
            v, err = lib(open_fn, tf)
            if err:
                out.fail(err.sig(tag + "-tempfile-open"), f"open on a tempfile.TemporaryFile() raised {err.describe()}")
                return
            check_reads(out, v, model, requests[:4], tag + "-tempfile")
        return
    if how == "shared":
        # two readers over one caller-owned file object, used in turn (each must position the handle itself), with the caller
        # also moving the handle in between
        out.cls("two-readers-one-handle")
        h = io.BytesIO(fh.materialize(limit))
        v1, err = lib(open_fn, h)
        if not err:
            h.seek(0)
            v2, err = lib(open_fn, h)
        if err:
            out.fail(err.sig(tag + "-shared-open"), f"open raised {err.describe()}")
            return
        rs = [r for r in requests[:5] if r[1] > 0]
        for i, r in enumerate(rs):
            other = rs[(i + 1) % len(rs)]
            check_reads(out, v1, model, [r], tag + "-shared-a")
            check_reads(out, v2, model, [other], tag + "-shared-b")
            h.seek((i * 7919) % max(1, len(h.getbuffer())))
            check_reads(out, v1, model, [[r[0] + r[1], min(r[1], 70000)]] if r[0] + r[1] < model.size else [r], tag + "-shared-a")
            if out.failures:
                return
        return
    out.cls("via-minimal-handle")
    v, err = lib(open_fn, MinimalHandle(fh.materialize(limit), seek_returns_none=how == "seek-none"))
    if err:
        out.fail(err.sig(tag + "-minimal-open"), f"open through a minimal file object raised {err.describe()}")
        return
    check_reads(out, v, model, requests[:4], tag + "-minimal")


def gzip_handle(fh, limit: int = 4 << 20):
    """The content of an in-memory image behind gzip.open() on a real file: a handle whose fileno() exists but belongs to other
    bytes (the compressed file), that cannot seek from the end and whose reads are a stream.  -> (handle, cleanup) or (None, None)
    when the image is too large to materialise."""
    import gzip
    import shutil
    import tempfile

    if fh.size > limit:
        return None, None
    d = tempfile.mkdtemp(prefix="gz-", dir="/dev/shm" if os.path.isdir("/dev/shm") else None)
    path = os.path.join(d, "image.gz")
    with gzip.open(path, "wb", compresslevel=1) as f:
        f.write(fh.materialize(limit))
    h = gzip.open(path, "rb")

    def cleanup():
        try:
            h.close()
        finally:
            shutil.rmtree(d, ignore_errors=True)

    return h, cleanup


def also_gzip(out, spec, fh, open_fn, model, requests, tag, limit: int = 4 << 20):
    """If the case asks for it (spec["via_gzip"]) and the image is small, open the same bytes once more behind gzip.open() (the
    way the library's own tests open their samples) and compare a few reads."""
    if not spec.get("via_gzip") or out.failures:
        return
    gz, cleanup = gzip_handle(fh, limit)
    if gz is None:
        return
    try:
        out.cls("via-gzip-handle")
        v, err = lib(open_fn, gz)
        if err:
            out.fail(err.sig(tag + "-gzip-open"), f"open through a gzip.open() handle raised {err.describe()}")
            return
        if hasattr(v, "size") and getattr(model, "size", None) is not None and v.size != model.size:
            out.fail(f"mismatch|{tag}-gzip-size", f"size {v.size} != {model.size} through a gzip.open() handle")
            return
        check_reads(out, v, model, requests[:4], tag + "-gzip")
    finally:
        cleanup()


def first_diff(a: bytes, b: bytes) -> int:
    n = min(len(a), len(b))
    if a[:n] == b[:n]:
        return n
    lo, hi = 0, n
    while hi - lo > 1:
        mid = (lo + hi) // 2
        if a[lo:mid] == b[lo:mid]:
            lo = mid
        else:
            hi = mid
    return lo


def describe_mismatch(off: int, n: int, got: bytes, exp: bytes) -> str:
    d = first_diff(got, exp)
    return (
        f"read(off={off:#x}, n={n:#x}): got {len(got)} bytes, expected {len(exp)}; first difference at +{d:#x} "
        f"(abs {off + d:#x}); got {got[d:d + 16].hex()} expected {exp[d:d + 16].hex()}"
    )


def read_at(stream, off: int, n: int) -> bytes:
    stream.seek(off)
    return stream.read(n)


def check_reads(out: Outcome, stream, model, requests, tag: str, limit_fail: int = 2, fault=None, fault_fh=None) -> None:
    """Compare stream reads with the model for every (offset, length) request.

    fault = [request index, k] with fault_fh = the caller-side SparseFile under the stream: the k-th read() the library issues on
    that handle while serving that request fails once with an OSError (a transient I/O error of the caller's storage).  The
    library may let any exception out of that call; the caller then repeats the same request on the same object, and that
    repeat -- like every later request -- must return the model's bytes (nothing half-updated may survive the failed call)."""
    nfail = 0
    for ri, (off, n) in enumerate(requests):
        if fault and fault_fh is not None and ri == fault[0]:
            fault_fh.fault_fired = False
            fault_fh.fault_in = fault[1]
            got, err = lib(read_at, stream, off, n)
            fault_fh.fault_in = None
            if fault_fh.fault_fired:
                out.cls("transient-fault-then-retry")
                if err is None and got != model.read_at(off, n):
                    out.fail(f"mismatch|{tag}-during-fault", "a read during which the file object raised an I/O error returned wrong bytes instead of raising: "
                             + describe_mismatch(off, n, got, model.read_at(off, n)))
                    nfail += 1
                tag_r = tag + "-retry-after-fault"
                got, err = lib(read_at, stream, off, n)
                if err is not None:
                    out.fail(err.sig(tag_r), f"read(off={off:#x}, n={n:#x}) repeated after a transient I/O error raised {err.describe()}")
                    nfail += 1
                elif got != model.read_at(off, n):
                    out.fail(f"mismatch|{tag_r}", "repeated after a transient I/O error: " + describe_mismatch(off, n, got, model.read_at(off, n)))
                    nfail += 1
                if nfail >= limit_fail:
                    break
                continue
        else:
            got, err = lib(read_at, stream, off, n)
        if err is not None:
            out.fail(err.sig(tag), f"read(off={off:#x}, n={n:#x}) raised {err.describe()}")
            nfail += 1
        else:
            exp = model.read_at(off, n)
            if got != exp:
                out.fail(f"mismatch|{tag}", describe_mismatch(off, n, got, exp))
                nfail += 1
        if nfail >= limit_fail:
            break


TRACKED: list = []  # (BytesIO, original bytes): caller-supplied in-memory handles whose content must never change (C09)
GRAVEYARD: list = []  # handles that still have buffer exports when released: kept alive for the life of the process


import io as _io

MUTATION_CALLS: list = []  # write/truncate calls the library made on a tracked in-memory handle


class RecordingBytesIO(_io.BytesIO):
    """A writable in-memory handle, as a caller may well supply one: mutating calls go through but are recorded."""

    def write(self, b):
        MUTATION_CALLS.append(("write", self.tell(), len(b)))
        return super().write(b)

    def writelines(self, lines):
        MUTATION_CALLS.append(("writelines", self.tell()))
        return super().writelines(lines)

    def truncate(self, size=None):
        MUTATION_CALLS.append(("truncate", size))
        return super().truncate(size)


def track(data: bytes):
    """io.BytesIO(data), registered so that (a) C09 can verify that the library never changes its content and (b) it is only
    released once no buffer export is left (deallocating a BytesIO with live exports crashes the interpreter)."""
    bio = RecordingBytesIO(data)
    TRACKED.append((bio, data))
    return bio


def release_tracked() -> bool:
    """Verify and release all tracked handles.  Returns True if any handle's content was changed."""
    changed = False
    for bio, orig in TRACKED:
        try:
            if bio.getvalue() != orig:
                changed = True
        except ValueError:
            pass  # closed by the library / harness: content can no longer be inspected
        try:
            bio.close()
        except BufferError:
            GRAVEYARD.append(bio)
    TRACKED.clear()
    return changed
