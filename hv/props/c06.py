"""C06 — Parallels HDS/HDD: every byte range reads as the guest-visible content."""
from __future__ import annotations

import os
import shutil
import tempfile
from pathlib import Path

from hypothesis import strategies as st

from hv import strat
from hv.builders import hdd as bhdd
from hv.core import Outcome, check_reads, lib
from hv.sparse import Extents, Pat, SparseFile

ID = "C06"
RULE = (
    "Hypothesis draws HDS specs (v1 'WithoutFreeSpace' with BAT in sectors and 32-bit size, v2 'WithouFreSpacExt' with BAT "
    "in clusters and 64-bit size; cluster size 1..4096 sectors, powers of two weighted; BAT = any allocated subset with a "
    "placement permutation with gaps, optionally at BAT entry values around and above 2^31; version-1 headers with m_FirstBlockOffset "
    "set or left zero; a third of the cases force an allocated cluster whose file offset equals the byte "
    "length of the unallocated run before it, or is one cluster off) and plain images; opened as HDS(fh) and, for one case in "
    "six, as HDD(dir).open() from a generated DiskDescriptor.xml in a temp dir. Reads must equal the content model. "
    "Non-trivial = a request contains an unallocated run directly followed by an allocated cluster, or the image is v1."
    ' BATs that end exactly where the first data block begins; image files named by relative paths with a directory part or in decomposed Unicode form.'
)
RULE += ' Round 10: transient OSError then retry; content flavours; a failing open() of an unknown snapshot id between the reads of an earlier stream; the scratch path is reused by every case.'
ASSUMPTIONS = [
    "allocated clusters never sit at file sector 0 (BAT entry 0 means unallocated in the format itself)",
    "v2 cluster data is cluster-aligned in the file (BAT entries are in cluster units)",
]


def budget(tier):
    return 10000 if tier == "quick" else 50000


@st.composite
def hds_spec(draw, tier="quick", layer=0, geometry=None, version=None):
    version = version or draw(st.sampled_from([1, 2, 2]))
    if geometry:
        cs, ncl, size_sectors = geometry
    else:
        cs = draw(st.one_of(st.sampled_from([2048, 2048, 1, 2, 8, 16, 128, 512]), st.integers(1, 4096)))
        ncl = draw(st.one_of(st.integers(1, 6), st.integers(1, 40), st.sampled_from([1025, 4097, 9000])))
        last = draw(st.one_of(st.just(cs), st.integers(1, cs)))
        size_sectors = (ncl - 1) * cs + last
    bat_entries = ncl + draw(st.sampled_from([0, 0, 1, 5]))
    first_min = (64 + 4 * bat_entries + 511) // 512
    first_cl = (first_min + cs - 1) // cs + draw(st.sampled_from([0, 0, 1]))
    first = first_cl * cs
    if not geometry and draw(st.integers(0, 5)) == 0 and (first * 512 - 64) // 4 <= 1 << 16:
        bat_entries = (first * 512 - 64) // 4  # a table that ends exactly where the first data block begins
    if ncl <= 40:
        alloc_l = [i for i in range(ncl) if draw(st.integers(0, 2)) != 0]
    else:
        alloc_l = sorted(set(draw(strat.sparse_subset(ncl, 24))) | {b for b in (0, 1023, 1024, 4096, ncl - 1) if b < ncl and draw(st.booleans())})
    slots = draw(strat.placement(len(alloc_l)))
    shift = draw(st.sampled_from([0, 0, 1, 3])) if version == 1 else 0  # v1 need not be cluster aligned
    alloc = {cl: first + s * cs + shift for cl, s in zip(alloc_l, slots)}
    # BAT entries are unsigned 32-bit numbers (sectors in version 1, cluster indices in version 2): some images keep their data
    # around and above entry value 2^31
    far = draw(st.sampled_from([0, 0, 0, 0, 0x7FFFFFF0, 0x80000000, 0xFFF00000])) if not geometry else 0
    if far and alloc:
        unit_ = 1 if version == 1 else cs
        span_ = (max(slots, default=0) + 2) * cs + 8
        base_entry = min(far, (1 << 32) - 1 - span_ // unit_ - 1)
        base_sec = base_entry * unit_
        alloc = {cl: base_sec + s * cs + shift for cl, s in zip(alloc_l, slots)}
    forced = None
    mode = draw(st.sampled_from(["none", "none", "coincide", "coincide-1", "coincide+1"]))
    if mode != "none" and ncl >= 2:
        # clusters i..j-1 unallocated, cluster j stored at file cluster (j - i) + delta
        i = draw(st.integers(0, ncl - 2))
        jmin = i + first_cl
        if jmin < ncl:
            j = draw(st.integers(jmin, min(ncl - 1, jmin + 3)))
            delta = {"coincide": 0, "coincide-1": -1, "coincide+1": 1}[mode]
            fcl = j - i + delta
            if fcl >= first_cl and fcl >= 1:
                for c in range(i, j):
                    alloc.pop(c, None)
                target = fcl * cs
                for c, fs in list(alloc.items()):
                    if c != j and abs(fs - target) < cs:
                        del alloc[c]
                alloc[j] = target
                forced = [i * cs * 512, (j - i + 1) * cs * 512]
    spec = {
        "version": version, "cluster_sectors": cs, "size_sectors": size_sectors, "bat_entries": bat_entries,
        "first_block_offset": first, "in_use": draw(st.booleans()), "alloc": sorted([c, fs] for c, fs in alloc.items()),
        "layer": layer,
    }
    if version == 1 and draw(st.integers(0, 3)) == 0:
        spec["first_block_field"] = 0  # the legacy layout leaves m_FirstBlockOffset zero
    return spec, forced


@st.composite
def strategy_(draw, tier):
    kind = draw(st.sampled_from(["hds", "hds", "hds", "hds", "hdd-compressed", "hdd-plain"]))
    if kind == "hdd-plain":
        size_sectors = draw(st.integers(1, 6000))
        spec = {"kind": kind, "size_sectors": size_sectors, "holes": draw(st.lists(st.integers(0, 5), max_size=2, unique=True)),
                # a plain image is the guest's bytes as they are — also when they start with an expanding image's header (a nested
                # .hds at guest offset 0), a sparse-extent magic or text
                "head": draw(st.sampled_from([None, None, "hds-v1", "hds-v2", "KDMV", "# Disk DescriptorFile\n"]))}
        spec["requests"] = draw(strat.requests(size_sectors * 512, 1 << 20, count=5))
        spec["file_style"] = draw(st.sampled_from([None, None, "subdir", "sibling", "nfd", "nfd-hangul"]))
        return spec
    hs, forced = draw(hds_spec(tier))
    spec = dict(hs, kind=kind)
    size = spec["size_sectors"] * 512
    csz = spec["cluster_sectors"] * 512
    pts = []
    for c, _fs in spec["alloc"][:32]:
        pts += [c * csz, (c + 1) * csz]
    reqs = draw(strat.requests(size, csz, count=6, points=pts, whole_limit=4 << 20))
    spec["via_minimal"] = draw(strat.minimal_handle())
    spec["fault"] = draw(strat.fault())
    spec["flavours"] = draw(st.booleans())
    if kind != "hds":
        # how the descriptor names the image file: a bare name, a relative path with a directory part (inside the bundle, or a
        # sibling bundle), a name in decomposed Unicode form (stored under exactly that name)
        spec["file_style"] = draw(st.sampled_from([None, None, "subdir", "sibling", "nfd", "nfd-hangul"]))
    if forced:
        reqs.insert(0, [forced[0], min(forced[1], 4 << 20)])
    spec["requests"] = reqs
    return spec


def strategy(tier):
    return strategy_(tier)


def nontrivial(spec) -> bool:
    if spec["kind"] == "hdd-plain":
        return False
    if spec["version"] == 1:
        return True
    csz = spec["cluster_sectors"] * 512
    size = spec["size_sectors"] * 512
    alloc = {c for c, _ in spec["alloc"]}
    for off, n in spec["requests"]:
        n = min(n, size - off)
        if n <= 0:
            continue
        c0, c1 = off // csz, (off + n - 1) // csz
        for c in range(c0, c1):
            if c not in alloc and (c + 1) in alloc:
                return True
    return False


def scratch_dir():
    root = os.environ.get("VERIF_SCRATCH") or ("/dev/shm" if os.path.isdir("/dev/shm") else None)
    from hv.core import case_dir

    return case_dir("c06", root)


def check(spec) -> Outcome:
    from dissect.hypervisor.disk.hdd import HDD, HDS

    out = Outcome()
    kind = spec["kind"]
    out.cls(kind)
    if kind == "hdd-plain":
        size = spec["size_sectors"] * 512
        fh = SparseFile(size)
        lay = Extents(size)
        for i in range((size + (1 << 20) - 1) >> 20):
            if i in spec["holes"]:
                continue
            ln = min(1 << 20, size - (i << 20))
            skip = 0
            if i == 0 and spec.get("head"):
                from hv.sparse import Lit

                hb = {"hds-v1": bhdd.header_bytes({"version": 1, "cluster_sectors": 8, "size_sectors": 64, "bat_entries": 8, "first_block_offset": 8}) + bytes(32),
                      "hds-v2": bhdd.header_bytes({"version": 2, "cluster_sectors": 8, "size_sectors": 64, "bat_entries": 8, "first_block_offset": 8}) + bytes(32)
                      }.get(spec["head"], spec["head"].encode())[:ln]
                head = Lit(hb)
                fh.put(0, head)
                lay.put(0, head)
                skip = head.length
            if ln > skip:
                p = Pat(0x9A000 + i, ln - skip, base=skip)
                fh.put((i << 20) + skip, p)
                lay.put((i << 20) + skip, p)
        image_type = "Plain"
    else:
        fh, lay, meta = bhdd.build(spec)
        size = meta["size"]
        image_type = "Compressed"
        out.cls(f"v{spec['version']}", "pow2" if spec["cluster_sectors"] & (spec["cluster_sectors"] - 1) == 0 else "non-pow2")
    out.nontrivial = nontrivial(spec)
    tag = kind if kind == "hdd-plain" else f"{kind}-v{spec['version']}"

    if kind == "hds":
        s, err = lib(HDS, fh)
        if err:
            out.fail(err.sig(tag + "-open"), f"HDS() raised {err.describe()}")
            return out
        if s.size != size:
            out.fail(f"mismatch|{tag}-size", f"size {s.size} != {size}")
        check_reads(out, s, lay, spec["requests"], tag, fault=spec.get("fault"), fault_fh=fh)
        from hv.core import also_minimal

        also_minimal(out, spec, fh, HDS, lay, spec["requests"], tag)
        return out

    d = scratch_dir()
    try:
        hdd_dir = os.path.join(d, "disk.hdd")
        os.mkdir(hdd_dir)
        fname = "disk.hdd.0.{" + bhdd.DEFAULT_TOP + "}.hds"
        style = spec.get("file_style")
        if style:
            out.cls("file-" + style)
        if style == "subdir":
            os.mkdir(os.path.join(hdd_dir, "images"))
            fname = "images/" + fname
        elif style == "sibling":
            os.mkdir(os.path.join(d, "base.hdd"))
            fname = "../base.hdd/" + fname
        elif style == "nfd":
            fname = "cafe\u0301 A\u030a " + fname
        elif style == "nfd-hangul":
            fname = "\u1112\u1161\u11ab " + fname
        fh.write_to(os.path.join(hdd_dir, fname))
        desc = {"disk_size": size // 512, "storages": [{"start": 0, "end": size // 512, "images": [
            {"guid": bhdd.DEFAULT_TOP, "type": image_type, "file": fname}]}],
            "shots": [{"guid": bhdd.DEFAULT_TOP, "parent": bhdd.NULL_GUID}]}
        with open(os.path.join(hdd_dir, "DiskDescriptor.xml"), "w", encoding="utf-8") as f:
            f.write(bhdd.descriptor_xml(desc))
        hdd_obj, err = lib(HDD, Path(hdd_dir))
        stream = None
        if not err:
            stream, err = lib(hdd_obj.open)
        if err:
            out.fail(err.sig(tag + "-open"), f"HDD().open() raised {err.describe()}")
            return out
        if stream.size != size:
            out.fail(f"mismatch|{tag}-size", f"size {stream.size} != {size}")
        check_reads(out, stream, lay, spec["requests"][:2], tag)
        # a later open() on the same HDD object that fails (a snapshot id the descriptor does not know) is the caller's problem;
        # the stream handed out before keeps working
        _v, err2 = lib(hdd_obj.open, "{5fbaabe3-6958-40ff-92a7-860e329aab99}")
        out.cls("failed-open-in-between" if err2 else "bogus-guid-accepted")
        check_reads(out, stream, lay, spec["requests"][2:], tag + ("-after-failed-open" if err2 else ""))
        for _, st_fh in getattr(stream, "streams", []):
            f = getattr(st_fh, "fh", st_fh)
            if hasattr(f, "close"):
                f.close()
    finally:
        shutil.rmtree(d, ignore_errors=True)
    return out
