"""C01 — QCOW2: every byte range reads as the guest-visible content."""
from __future__ import annotations

from hypothesis import strategies as st

from hv import strat
from hv.builders import qcow2 as bq
from hv.core import Outcome, check_reads, lib
from hv.sparse import Overlay

ID = "C01"
RULE = (
    "Hypothesis draws QCOW2 specs: version 2 (72-byte header, extensions start at byte 72) and 3 (header_length 104/112/120), "
    "cluster_bits 9..21, virtual size any multiple of 512, a sparse set of described guest clusters of kinds "
    "{normal, zero-plain, zero-alloc, compressed (raw deflate, compressible to incompressible content, blobs at arbitrary "
    "byte offsets), explicitly unallocated}, extended L2 with 64-bit sub-cluster bitmaps from families {all, none, "
    "alternating, random valid, single bit, prefix/suffix runs}, external data file (clusters at data-file offset 0), raw backing "
    "object shorter/equal/longer than the disk or ALLOW_NO_BACKING_FILE, L1/L2/refcount/snapshot tables and data clusters "
    "in any order/permutation/gaps, optionally interleaved and beyond 4 GiB / up to the 56-bit and compressed-offset limits. "
    "Requests are biased to cluster, sub-cluster and L2-table boundaries. QCow2(...).read must equal the overlay model "
    "(layer over backing over zeros). Non-trivial = a request touches >= 2 described clusters of >= 2 kinds, or crosses an "
    "L2-table boundary, or touches a sub-cluster bitmap that is neither empty nor full."
    ' Overlay backing-file names also placed so that they end exactly with the first cluster; images without data file / backing also re-read through a minimal caller-side file object, or by a second reader opened on the same handle after the first was dropped.'
)
RULE += ' Round 10: one case in five meets a single transient OSError from the handle and repeats the request; half of the cases use content flavours (zero-headed, all-zero, all-0xFF units); two readers over one handle; anonymous temp-file handles; raw backing objects whose content is a qcow2 image.'
ASSUMPTIONS = [
    "zstd-compressed images are out of the generated domain (zstandard is not installable offline; C12 checks refusal)",
    "the refcount structures are minimal (one empty refcount-table cluster): the reader never consults them",
    "data never lives at host offset 0 of the qcow2 file itself (the header is there)",
]

BITMAP_FAMILIES = ["all", "none", "alt", "alt2", "random", "single", "prefix", "suffix", "mid", "zero-mix", "free-tail", "free-head"]


def budget(tier):
    return 8000 if tier == "quick" else 60000


@st.composite
def bitmap(draw):
    fam = draw(st.sampled_from(BITMAP_FAMILIES))
    m = 0xFFFFFFFF
    if fam == "all":
        return [m, 0]
    if fam == "none":
        return [0, 0]
    if fam == "alt":
        return [0x55555555, 0] if draw(st.booleans()) else [0xAAAAAAAA, 0x55555555]
    if fam == "alt2":
        return [0x0F0F0F0F, 0xF0000000]
    if fam == "single":
        b = 1 << draw(st.sampled_from([0, 1, 15, 16, 30, 31]))
        return [b, 0] if draw(st.booleans()) else [m & ~b, b if draw(st.booleans()) else 0]
    if fam == "prefix":
        k = draw(st.integers(1, 31))
        return [(1 << k) - 1, 0 if draw(st.booleans()) else (m & ~((1 << k) - 1))]
    if fam == "suffix":
        k = draw(st.integers(1, 31))
        return [m & ~((1 << k) - 1), 0]
    if fam == "mid":
        a = draw(st.integers(0, 30))
        b = draw(st.integers(a + 1, 31))
        run = ((1 << (b - a)) - 1) << a
        return [run, 0] if draw(st.booleans()) else [m & ~run, run]
    alloc = draw(st.integers(0, m))
    zero = draw(st.integers(0, m)) & ~alloc
    if fam in ("free-tail", "free-head"):
        # a run of unallocated sub-clusters up to the end (from the start) of the cluster, next to zero / allocated ones
        k = draw(st.sampled_from([1, 2, 3, 8, 16, 29, 30, 31]))
        keep = (1 << k) - 1 if fam == "free-tail" else m & ~((1 << k) - 1)
        top = 1 << (k - 1) if fam == "free-tail" else 1 << k
        which = draw(st.sampled_from(["zero", "alloc", "mixed"]))
        if which == "zero":
            return [0, (zero | alloc | top) & keep] if draw(st.booleans()) else [0, top]
        if which == "alloc":
            return [(alloc | top) & keep, 0]
        return [alloc & keep & ~top, (zero | top) & keep]
    if fam == "zero-mix":
        return [alloc & 0xFFFF0000, zero]
    return [alloc, zero]


@st.composite
def qcow2_spec(draw, tier="quick", layer=0, size_clusters=None, cluster_bits=None, allow_backing=True, with_snapshots=False,
               force=None):
    force = force or {}
    version = force.get("version") or draw(st.sampled_from([2, 3, 3, 3]))
    if cluster_bits is None:
        pool = [9, 10, 12, 14, 16, 16, 21] + ([17, 18, 20] if tier == "thorough" else [])  # both ends of the allowed range in every tier
        cb = draw(st.one_of(st.sampled_from(pool), st.integers(9, 16), st.integers(9, 21 if tier == "thorough" else 18)))
    else:
        cb = cluster_bits
    cs = 1 << cb
    ext = version == 3 and cb >= 14 and draw(st.integers(0, 2)) == 0
    if "ext_l2" in force:
        ext = force["ext_l2"]
    data_file = version == 3 and draw(st.integers(0, 5)) == 0
    if "data_file" in force:
        data_file = force["data_file"]
    l2e = cs // (16 if ext else 8)
    if size_clusters is None:
        ng = draw(st.one_of(st.integers(1, 6), st.integers(1, 40), st.sampled_from([l2e - 1, l2e, l2e + 1, 2 * l2e + 1, 3 * l2e])))
        ng = max(1, ng)
        last = draw(st.one_of(st.just(cs), st.integers(1, cs // 512).map(lambda k: k * 512)))
        size = (ng - 1) * cs + last
    else:
        ng = size_clusters
        size = ng * cs
    desc = set(draw(strat.sparse_subset(ng, 20)))
    for gi in (0, l2e - 1, l2e, l2e + 1, 2 * l2e - 1, 2 * l2e, ng - 1):
        if 0 <= gi < ng and draw(st.booleans()):
            desc.add(gi)
    if ng > l2e and draw(st.integers(0, 2)) == 0:
        # an L1 entry without an L2 table (nothing described in its range) followed by one whose first cluster is described
        hole = draw(st.integers(0, (ng - 1) // l2e - 1))
        desc = {g for g in desc if g // l2e != hole}
        desc.add((hole + 1) * l2e)
    desc = sorted(desc)
    if ext:
        pool = ["n", "n", "n", "z", "u"] + ([] if data_file else ["c"])
    elif version == 3:
        pool = ["n", "n", "n", "z", "Z", "u"] + ([] if data_file else ["c", "c"])
    else:
        pool = ["n", "n", "n", "u", "c", "c"]
    kinds = [draw(st.sampled_from(pool)) for _ in desc]
    placed = [gi for gi, k in zip(desc, kinds) if k in ("n", "Z")]
    l1_used = sorted({gi // l2e for gi in desc})
    interleave = draw(st.booleans())
    nitems = len(placed) + (len(l1_used) if interleave else 0)
    slots = draw(strat.placement(nitems))
    slot_of = dict(zip(placed, slots[: len(placed)]))
    l2_slots = {str(l1i): s for l1i, s in zip(l1_used, slots[len(placed):])} if interleave else {}
    clusters = []
    for gi, k in zip(desc, kinds):
        extra = None
        if ext and k in ("n", "z"):
            extra = draw(bitmap())
            if k == "z":
                extra = [0, extra[1] | (extra[0] if draw(st.booleans()) else 0)]
        elif k == "c":
            extra = draw(st.integers(0, 2))
        clusters.append([gi, k, slot_of.get(gi, 0), extra])
    motif = None
    if ext and ng >= 4 and not interleave and draw(st.integers(0, 3)) == 0:
        # three consecutive guest clusters stored back to back; the middle one allocated up to sub-cluster k and unallocated
        # behind it (k near the end), its neighbours fully allocated: a run that starts mid-cluster in the first one has to stop
        # inside the second although the third continues physically
        g0 = draw(st.integers(0, ng - 3))
        base_slot = max([c[2] for c in clusters if c[1] in ("n", "Z")] + [0]) + 2
        k = draw(st.sampled_from([16, 24, 28, 30, 31]))
        mid = draw(st.sampled_from([[(1 << k) - 1, 0], [(1 << k) - 1, 1 << k], [0xFFFFFFFF & ~(1 << k), 0]]))
        clusters = [c for c in clusters if c[0] not in (g0, g0 + 1, g0 + 2)]
        clusters += [[g0, "n", base_slot, [0xFFFFFFFF, 0]], [g0 + 1, "n", base_slot + 1, mid], [g0 + 2, "n", base_slot + 2, [0xFFFFFFFF, 0]]]
        clusters.sort()
        sub = cs // 32
        motif = [g0 * cs + draw(st.sampled_from([1, 2, 4, 16, 31])) * sub, 2 * cs + draw(st.sampled_from([0, sub, cs // 2]))]
        kinds = [c[1] for c in clusters]
    has_comp = any(k == "c" for k in kinds)
    csize_shift = 62 - (cb - 8)
    far_pool = [0, 0, 0, 1 << 32, (1 << 32) - cs, (1 << 40) + 5 * cs]
    # standard cluster / table offsets are 56-bit; compressed-cluster offsets have their own field width
    margin = (nitems + 70) * 4 * cs
    if not has_comp or csize_shift >= 56:
        far_pool += [(1 << 55), (1 << 56) - margin]
    else:
        far_pool += [(1 << (csize_shift - 1)) - margin]
    comp_far = draw(st.sampled_from([0, 0, 0, (1 << csize_shift) - 64 * cs, 1 << (csize_shift - 1)])) if has_comp else 0
    spec = {
        "version": version, "cluster_bits": cb, "size": size, "ext_l2": ext, "data_file": data_file,
        "data_file_named": draw(st.sampled_from([True, True, False])), "motif_request": motif,
        "clusters": clusters, "l2_interleave": interleave, "l2_slots": l2_slots, "l2_reverse": draw(st.booleans()),
        "meta_order": draw(st.permutations(["l1", "refcount", "snap", "l2"])), "meta_gap": draw(st.sampled_from([0, 0, 1])),
        "far_base": draw(st.sampled_from(far_pool)), "copied": draw(st.booleans()), "l1_extra": draw(st.sampled_from([0, 0, 1, 3])),
        "comp_shift": draw(st.sampled_from([0, 1, 17, 511, 300])), "cgaps": draw(st.lists(st.sampled_from([0, 0, 1, 7, 200, 513]), min_size=1, max_size=4)),
        "comp_far": comp_far, "layer": layer,
    }
    if version == 3:
        spec["header_length"] = draw(st.sampled_from([104, 112, 112, 120]))
    budget_bytes = cs - (spec.get("header_length", 72)) - 8
    if data_file:
        spec["data_file_name"] = draw(st.sampled_from(["data.raw", "d", "disk-data.img"]))
        budget_bytes -= 8 + len(spec["data_file_name"]) + 8
    if allow_backing and draw(st.integers(0, 2)) == 0:
        name = draw(st.sampled_from(["base.img", "b", "/var/lib/images/base image.qcow2", "ünï.raw"]))
        fmt = draw(st.sampled_from([None, "raw", "qcow2"]))
        need = len(name.encode()) + (16 if fmt else 0)
        if need + 16 <= budget_bytes:
            rel = draw(st.sampled_from(["short", "short", "equal", "long", "tiny"]))
            blen = {"short": max(512, (size // 2 // 512) * 512 + draw(st.sampled_from([0, 512, 100]))), "equal": size, "long": size + 8192,
                    "tiny": 512}[rel]
            spec["backing"] = {"name": name, "format": fmt, "length": blen, "nested_head": fmt != "qcow2" and draw(st.integers(0, 3)) == 0}
            spec["backing_mode"] = draw(st.sampled_from(["object", "object", "object", "allow_none"]))
            spec["backing_name_at_end"] = draw(st.sampled_from([False, False, True]))
            budget_bytes -= need + 16
    exts = []
    if draw(st.integers(0, 3)) == 0:
        n = draw(st.integers(1, 3))
        for _ in range(n):
            ln = draw(st.sampled_from([0, 1, 7, 8, 9, 15, 24]))
            if budget_bytes >= ln + 16 + 8:
                exts.append([draw(st.sampled_from([0x6803F857, 0x12345678, 0xCAFED00D])), bytes((i * 7 + ln) & 0xFF for i in range(ln)).hex()])
                budget_bytes -= ln + 16
        spec["extensions"] = exts
        spec["ext_order"] = draw(st.sampled_from(["before", "after"]))
    return spec


def request_points(spec):
    cs = 1 << spec["cluster_bits"]
    l2e = cs // (16 if spec["ext_l2"] else 8)
    pts = [l2e * cs, 2 * l2e * cs]
    for c in spec["clusters"]:
        pts += [c[0] * cs, (c[0] + 1) * cs]
        if spec["ext_l2"]:
            pts += [c[0] * cs + k * (cs // 32) for k in (1, 16, 31)]
    return pts


@st.composite
def strategy_(draw, tier):
    spec = draw(qcow2_spec(tier))
    cs = 1 << spec["cluster_bits"]
    unit = cs // 32 if spec["ext_l2"] and draw(st.booleans()) else cs
    spec["requests"] = draw(strat.requests(spec["size"], unit, count=6, points=request_points(spec), whole_limit=2 << 20))
    spec["via_minimal"] = draw(strat.minimal_handle())
    spec["fault"] = draw(strat.fault())
    spec["flavours"] = draw(st.booleans())
    if spec.get("motif_request"):
        off, n = spec["motif_request"]
        if off < spec["size"]:
            spec["requests"].append([off, n])
    span = cs * (cs // (16 if spec["ext_l2"] else 8))
    if spec["size"] > span:
        # always: a request that starts inside the last cluster in front of an L1 boundary and ends behind it
        p0 = span * draw(st.integers(1, min(3, (spec["size"] - 1) // span)))
        back = draw(st.sampled_from([512, 8192, 8192 + 512, cs // 2, cs - 512]))
        spec["requests"].append([max(0, p0 - back), back + draw(st.sampled_from([1, 512, 8192, cs]))])
    return spec


def strategy(tier):
    return strategy_(tier)


def nontrivial(spec) -> bool:
    cs = 1 << spec["cluster_bits"]
    l2e = cs // (16 if spec["ext_l2"] else 8)
    info = {c[0]: c for c in spec["clusters"]}
    size = spec["size"]
    for off, n in spec["requests"]:
        n = min(n, size - off)
        if n <= 0:
            continue
        g0, g1 = off // cs, (off + n - 1) // cs
        if g0 // l2e != g1 // l2e:
            return True
        kinds = set()
        cnt = 0
        for gi in range(g0, min(g1, g0 + 64) + 1):
            c = info.get(gi)
            if c:
                cnt += 1
                kinds.add(c[1])
                if spec["ext_l2"] and c[3] and isinstance(c[3], list):
                    a, z = c[3]
                    if (a | z) not in (0, 0xFFFFFFFF) or (a and z):
                        return True
        if cnt >= 2 and len(kinds) >= 2:
            return True
    return False


def tag_of(spec) -> str:
    t = f"qcow2-v{spec['version']}"
    if spec["ext_l2"]:
        t += "-extl2"
    if spec["data_file"]:
        t += "-datafile"
    if spec.get("backing"):
        t += "-backing"
    return t


def open_image(spec, built):
    from dissect.hypervisor.disk import qcow2 as dq

    fh, dfh, bfh, layers, meta = built
    kw = {}
    if dfh is not None:
        kw["data_file"] = dfh
    if spec.get("backing"):
        kw["backing_file"] = dq.ALLOW_NO_BACKING_FILE if spec.get("backing_mode") == "allow_none" else bfh
    return lib(dq.QCow2, fh, **kw)


def model_of(spec, layers, view="active"):
    stack = [layers[view]]
    if spec.get("backing") and spec.get("backing_mode") != "allow_none":
        stack.append(layers["backing"])
    return Overlay(stack, spec["size"])


def check(spec) -> Outcome:
    out = Outcome()
    built = bq.build(spec)
    fh, dfh, bfh, layers, meta = built
    out.nontrivial = nontrivial(spec)
    tag = tag_of(spec)
    kinds = {c[1] for c in spec["clusters"]}
    out.cls(tag, f"cb={spec['cluster_bits']}", "far" if spec["far_base"] >= 1 << 32 else "near")
    if "c" in kinds:
        out.cls("compressed")
    if spec.get("backing"):
        b = spec["backing"]["length"]
        out.cls("backing-short" if b < spec["size"] else "backing-full", spec.get("backing_mode", "object"))
    if spec.get("extensions"):
        out.cls("extra-extensions")
    q, err = open_image(spec, built)
    if err:
        out.fail(err.sig(tag + "-open"), f"QCow2() raised {err.describe()}")
        return out
    if q.size != spec["size"]:
        out.fail(f"mismatch|{tag}-size", f"size {q.size} != {spec['size']}")
    check_reads(out, q, model_of(spec, layers), spec["requests"], tag, fault=spec.get("fault"), fault_fh=fh)
    if not spec["data_file"] and not spec.get("backing"):
        from dissect.hypervisor.disk.qcow2 import QCow2
        from hv.core import also_minimal

        also_minimal(out, spec, built[0], QCow2, model_of(spec, layers), spec["requests"], tag)
    return out
