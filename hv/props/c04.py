"""C04 — VHD: every byte range reads as the guest-visible content."""
from __future__ import annotations

from hypothesis import strategies as st

from hv import strat
from hv.builders import vhd as bvhd
from hv.core import Outcome, check_reads, lib

ID = "C04"
RULE = (
    "Hypothesis draws fixed and dynamic VHD specs (dynamic: block size 2^12..2^22, BAT = any allocated subset with a "
    "physical placement permutation with gaps, dynamic header and BAT at any 512-aligned offsets in either order or the BAT "
    "behind the data blocks, virtual size not necessarily a block multiple; fixed: payload with holes, optionally starting "
    "with a nested dynamic VHD's footer copy and header; both with the 512-byte or the legacy 511-byte "
    "footer, Original Size smaller / larger than Current Size or zero, the Temporary feature bit) plus requests biased to block/buffer boundaries and the tail; an independent writer produces image + model; "
    "VHD(fh).read and VHD(fh).disk.read_sectors must equal the model. Non-trivial = a request crosses a boundary between "
    "blocks that are not physically adjacent, or reads the partial last block, or block size != 2 MiB, or legacy footer."
    ' Dynamic header and BAT also placed at 4 GiB - 512, 4 GiB, 4 GiB + 512 and 1 TiB; images also opened through a minimal file object (incl. seek() returning None) or by a second reader on the same handle after the first was dropped.'
)
RULE += ' Round 10: transient OSError then retry; content flavours; two readers over one handle; guest data ending in a nested VHD footer; block sizes that are not powers of two.'
ASSUMPTIONS = [
    "dynamic block sizes are powers of two >= 4096: below that the sector-bitmap size (ceil vs floor of sectors/8) is "
    "ambiguous between the specification text and the reference implementations, so it is not generated",
    "blocks never sit at sector 0 (the footer copy lives there); sector bitmaps are all ones",
]


def budget(tier):
    return 16000 if tier == "quick" else 50000


@st.composite
def vhd_spec(draw, tier="quick", layer=0, kind=None):
    spec = draw(_vhd_spec(tier, layer, kind))
    # footer fields a reader must not confuse with the current size / the footer variant: a disk resized after creation
    # (Original Size != Current Size) and the Temporary feature bit next to the reserved bit (512-byte footers only)
    how = draw(st.sampled_from([None, None, "smaller", "larger", "zero"]))
    if how:
        spec["original_size"] = {"smaller": max(512, (spec["size"] // 1024) * 512), "larger": spec["size"] * 2 + 512, "zero": 0}[how]
    if not spec.get("legacy_footer") and draw(st.integers(0, 3)) == 0:
        spec["features"] = 3
    return spec


@st.composite
def _vhd_spec(draw, tier="quick", layer=0, kind=None):
    kind = kind or draw(st.sampled_from(["fixed", "dynamic", "dynamic", "dynamic"]))
    legacy = draw(st.sampled_from([False, False, False, True]))
    if kind == "fixed":
        size = 512 * draw(st.one_of(st.integers(1, 64), st.integers(1, 10000)))
        nch = (size + (1 << 20) - 1) >> 20
        holes = draw(st.lists(st.integers(0, nch - 1), max_size=2, unique=True))
        # guest data that itself starts with the footer copy and header of a dynamic VHD (a nested image at guest offset 0)
        nested = size >= 4096 and 0 not in holes and draw(st.integers(0, 3)) == 0
        return {"kind": "fixed", "size": size, "legacy_footer": legacy, "holes": holes, "layer": layer, "nested_head": nested,
                "nested_tail": draw(st.integers(0, 3)) == 0}
    bits = draw(st.one_of(st.sampled_from([21, 21, 12, 13, 16, 20]), st.integers(12, 22)))
    bs = 1 << bits
    if draw(st.integers(0, 5)) == 0:
        # "every block size": sizes that are not a power of two (whole multiples of eight sectors, so that the sector bitmap has whole bytes)
        bs = draw(st.sampled_from([20480, 192 << 10, 1536 << 10, 3 << 20, 12288]))
    # large BATs (beyond any table/LRU cache granularity) are cheap: only a sparse set of blocks is described
    nb = draw(st.one_of(st.integers(1, 6), st.integers(1, 40), st.sampled_from([1023, 1024, 1025, 1500, 4096, 4097, 4200, 9000, 65535, 65536, 65537, 70000])))
    tail = draw(st.sampled_from([0, 0, 512, 1024, 4096 + 512, 8192, 8192 + 512, -512]))
    last = bs if tail == 0 else (tail % bs) or bs
    last = max(512, (last // 512) * 512)
    size = (nb - 1) * bs + last
    if nb <= 40:
        alloc_l = [i for i in range(nb) if draw(st.integers(0, 3)) != 0]
    else:
        alloc_l = set(draw(strat.sparse_subset(nb, 24)))
        for b in (0, 1023, 1024, 1025, 4095, 4096, 4097, 65535, 65536, 65537, nb - 1, nb - 2):
            if 0 <= b < nb and draw(st.booleans()):
                alloc_l.add(b)
        alloc_l = sorted(alloc_l)
    slots = draw(strat.placement(len(alloc_l)))
    bat_len = ((4 * nb + 511) // 512) * 512
    gap1 = 512 * draw(st.sampled_from([0, 0, 1, 5]))
    gap2 = 512 * draw(st.sampled_from([0, 0, 1, 3, 2048]))
    if draw(st.booleans()):
        dyn_off = 512 + gap1
        tab_off = dyn_off + 1024 + gap2
        base = tab_off + bat_len
    else:
        tab_off = 512 + gap1
        dyn_off = tab_off + bat_len + gap2
        base = dyn_off + 1024
    base_sec = base // 512 + draw(st.sampled_from([0, 0, 1, 7]))
    # BAT entries are unsigned 32-bit sector numbers: place the data area of some images beyond 2^31 sectors (> 1 TiB file)
    hi = draw(st.sampled_from([0, 0, 0, (1 << 31) - 3, 1 << 31, 0xC0000000, 0xFFFFFF00]))
    if hi:
        span_ = bvhd.bitmap_sectors(bs) + bs // 512
        need = (max(slots, default=0) + 2) * (span_ + 3)
        base_sec = max(base_sec, min(hi, (1 << 32) - 2 - need))
    span = bvhd.bitmap_sectors(bs) + bs // 512
    pad = draw(st.sampled_from([0, 0, 1, 3]))
    if not hi and draw(st.integers(0, 3)) == 0:
        # the BAT behind the data blocks (a table that was relocated when the disk grew): blocks start right after the
        # dynamic header, at sector numbers below the end of the table
        dyn_off = 512 + gap1
        base_sec = (dyn_off + 1024) // 512 + draw(st.sampled_from([0, 0, 1]))
        tab_off = (base_sec + (max(slots, default=-1) + 1) * (span + pad)) * 512 + gap2
    if not hi and draw(st.integers(0, 5)) == 0:
        # the dynamic header and the BAT (far) beyond 4 GiB, found through their 64-bit offsets; the data blocks stay in front
        dyn_off = draw(st.sampled_from([0xFFFFFE00, 1 << 32, (1 << 32) + 512, 1 << 40]))
        tab_off = dyn_off + 1024 + gap2
        base_sec = 1 + draw(st.sampled_from([0, 0, 1, 7]))
    return {
        "kind": "dynamic", "size": size, "legacy_footer": legacy, "block_size": bs, "dyn_offset": dyn_off, "table_offset": tab_off,
        "alloc": [[b, base_sec + s * (span + pad)] for b, s in zip(alloc_l, slots)], "layer": layer,
        "nested_tail": draw(st.integers(0, 4)) == 0,
    }


@st.composite
def strategy_(draw, tier):
    spec = draw(vhd_spec(tier))
    unit = spec.get("block_size", 1 << 20)
    pts = []
    for b, _so in spec.get("alloc", []):
        pts += [b * unit, (b + 1) * unit]
    spec["requests"] = draw(strat.requests(spec["size"], unit, count=6, points=pts[:64], whole_limit=4 << 20))
    spec["via_minimal"] = draw(strat.minimal_handle())
    spec["fault"] = draw(strat.fault())
    spec["flavours"] = draw(st.booleans())
    spec["sector_requests"] = [[o // 512, max(1, min(n, 1 << 20) // 512)] for o, n in spec["requests"][:2]]
    return spec


def strategy(tier):
    return strategy_(tier)


def nontrivial(spec) -> bool:
    if spec["legacy_footer"]:
        return True
    if spec["kind"] == "fixed":
        return False
    bs = spec["block_size"]
    if bs != 1 << 21:
        return True
    size = spec["size"]
    span = bvhd.bitmap_sectors(bs) + bs // 512
    phys = dict(map(tuple, spec["alloc"]))
    for off, n in spec["requests"]:
        n = min(n, size - off)
        if n <= 0:
            continue
        b0, b1 = off // bs, (off + n - 1) // bs
        for b in range(b0, b1):
            pa, pb = phys.get(b), phys.get(b + 1)
            if pa is None or pb is None or pb != pa + span:
                return True
        if size % bs and b1 == size // bs:
            return True
    return False


def check(spec) -> Outcome:
    from dissect.hypervisor.disk.vhd import VHD

    out = Outcome()
    fh, lay, meta = bvhd.build(spec)
    out.nontrivial = nontrivial(spec)
    tag = "vhd-" + spec["kind"] + ("-legacy" if spec["legacy_footer"] else "")
    out.cls(tag)
    if spec["kind"] == "dynamic":
        out.cls(f"bs=2^{spec['block_size'].bit_length() - 1}", "tail_partial" if spec["size"] % spec["block_size"] else "tail_full")
    v, err = lib(VHD, fh)
    if err:
        out.fail(err.sig(tag + "-open"), f"VHD() raised {err.describe()}")
        return out
    if v.size != spec["size"]:
        out.fail(f"mismatch|{tag}-size", f"size {v.size} != {spec['size']}")
    check_reads(out, v, lay, spec["requests"], tag, fault=spec.get("fault"), fault_fh=fh)
    from hv.core import also_minimal

    also_minimal(out, spec, fh, VHD, lay, spec["requests"], tag)
    for s, c in spec.get("sector_requests", []):
        c = min(c, spec["size"] // 512 - s)
        if c <= 0:
            continue
        got, err = lib(v.disk.read_sectors, s, c)
        if err:
            out.fail(err.sig(tag + "-sectors"), f"read_sectors({s}, {c}) raised {err.describe()}")
        elif got != lay.read_at(s * 512, c * 512):
            out.fail(f"mismatch|{tag}-sectors", f"read_sectors({s}, {c}) differs from model")
    return out
