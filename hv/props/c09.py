"""C09 — Parsing never modifies evidence (read-only operation)."""
from __future__ import annotations

import hashlib
import importlib
import io
import os
import shutil
import sys
import tarfile
import tempfile
from pathlib import Path

from hypothesis import strategies as st

from hv import audit, core
from hv import sparse as sparse_mod
from hv.builders import envelope as benv
from hv.builders import hdd as bhdd
from hv.builders import vhdx as bvhdx
from hv.builders import vmdk as bvmdk
from hv.core import DEBUG_LOG_ENV, Outcome, lib
from hv.props import c12, c20

ID = "C09"
TECHNIQUE = ("property-based testing in audit mode: the generated workloads of the other properties (valid, chained, multi-extent, hostile, "
             "CLI) are re-run under sys.addaudithook, write-recording handles and content-tracked in-memory handles; plus a generated "
             "operation sequence over a real evidence directory with a before/after manifest")
RULE = (
    "Workloads are drawn from the strategies of C06, C07, C10, C11, C12, C13, C14, C16, C19 and C20 (disk images opened by path and by "
    "handle, differencing chains with parents in sibling directories, multi-extent descriptors incl. FLAT/VMFS extents, hostile "
    "and mutated inputs, the envelope CLI) and from a scenario generator that builds an evidence directory (VMDK descriptor + "
    "extents + parent, differencing VHDX + parent, Parallels .hdd, envelope + keystore, vmtar) and runs a random sequence of "
    "open / read / list / decrypt operations over it (incl. payloads larger than one 4 MiB decrypt chunk, the CLI with -o naming a "
    "file, an existing file, a relative path from another working directory, a separate directory or the evidence directory, envelopes "
    "whose names do not end in '.ve'; Hyper-V file objects opened as streams from read-only and read-write handles; a VMDK descriptor "
    "given as a read-write handle, alone and in a list with paths). Every "
    "workload runs in two process variants: default environment and DISSECT_LOG_VMDK/VHDX=DEBUG. Monitors: (1) audit events raised while a dissect.hypervisor frame is on "
    "the stack — open with a write-capable mode or flag, writable mmap, remove/rename/truncate/mkdir/rmdir/chmod/utime/link/"
    "symlink, shutil.*, tempfile.* — are violations, except the path given to the CLI as --output; (2) any write/writelines/"
    "truncate call on a supplied SparseFile, and any content change of a supplied BytesIO; (3) manifest (names, sizes, "
    "mtime_ns, BLAKE2) of the evidence directory before and after. Non-trivial = the workload made the library open >= 1 "
    "file by path; the open call sites reached are reported in the evidence."
)
RULE += ' Round 10: scenario steps envelope-spooled (an in-memory spooled file must not be rolled over to disk) and reader-closed (a reader closed / left through with / dropped over a delete-on-close temporary file).'
ASSUMPTIONS = [
    "decides the property on the paths the generated workloads execute; the static 'every call site' reading of the quantifier is "
    "reported (open call sites reached vs. found by a source scan) but not claimed",
    "PYTHONDONTWRITEBYTECODE=1 (the runner sets it) so that lazy imports inside library calls do not write __pycache__",
]

WORKLOADS = ["C06", "C07", "C07", "C10", "C10", "C11", "C12", "C13", "C14", "C16", "C19", "C20", "scenario", "scenario"]


def budget(tier):  # per variant
    return 600 if tier == "quick" else 25000


VARIANT_DISTINCT_SEEDS = True  # the two variants draw different workloads


def variants(tier):
    # the library's logging switches are read at import time
    return [{"name": "default", "env": {}},
            {"name": "debug-logging", "env": DEBUG_LOG_ENV}]


@st.composite
def strategy_(draw, tier):
    w = draw(st.sampled_from(WORKLOADS))
    if w == "scenario":
        ops = draw(st.lists(st.sampled_from(["vmdk-open", "vmdk-read", "vmdk-flat-big", "vhdx-open", "vhdx-read", "hdd-open", "hdd-read", "hdd-guid",
                                             "envelope-decrypt", "cli", "cli-existing-output", "cli-wrong-key", "vmtar-list", "vmtar-extract", "keystore",
                                             "vmtar-modes", "vhdx-abs-parent", "hyperv-dirty", "rw-handles", "envelope-decrypt-big", "cli-big",
                                             "cli-output-dir", "cli-output-evidence-dir", "cli-relative-output", "hyperv-fileobject",
                                             "vmdk-rw-descriptor-handle", "vmtar-empty", "vmtar-odd-handles", "hdd-backup-descriptor", "cli-decomposed-name", "qcow2-bad-deflate", "vmdk-missing-parent",
                                             "hdd-in-use", "vmdk-short-flat", "vhd-gzip-big", "envelope-spooled", "reader-closed"]),
                            min_size=2, max_size=10))
        return {"workload": w, "ops": ops, "n": draw(st.integers(0, 1 << 20))}
    mod = importlib.import_module(f"hv.props.{w.lower()}")
    inner = draw(mod.strategy(tier))
    return {"workload": w, "inner": inner}


def strategy(tier):
    return strategy_(tier)


def manifest(root):
    out = {}
    for dp, dn, fn in os.walk(root):
        for n in fn + dn:
            p = os.path.join(dp, n)
            st_ = os.lstat(p)
            h = ""
            if os.path.isfile(p):
                b = hashlib.blake2b(digest_size=8)
                with open(p, "rb") as f:
                    while True:
                        chunk = f.read(1 << 20)
                        if not chunk:
                            break
                        b.update(chunk)
                h = b.hexdigest()
            out[os.path.relpath(p, root)] = (st_.st_size if os.path.isfile(p) else 0, st_.st_mtime_ns, h)
    return out


def scratch_dir():
    root = os.environ.get("VERIF_SCRATCH") or ("/dev/shm" if os.path.isdir("/dev/shm") else None)
    from hv.core import case_dir

    return case_dir("c09", root)


def gzip_of_nothing() -> bytes:
    import gzip

    return gzip.compress(b"", 6, mtime=0)


_BIG_VHD_GZ = []


def big_vhd_gz() -> bytes:
    if not _BIG_VHD_GZ:
        import gzip

        from hv.builders import vhd as bvhd

        size = 33 << 20
        _BIG_VHD_GZ.append(gzip.compress(bytes(size) + bvhd.footer_bytes({"kind": "fixed", "size": size}), 1, mtime=0))
    return _BIG_VHD_GZ[0]


def build_evidence(d, n):
    """An evidence directory with one artefact of every path-opening kind.  Returns a dict of paths / keys."""
    info = {}
    # VMDK: parent (flat) + child descriptor with two sparse delta extents in a sibling directory
    os.makedirs(os.path.join(d, "vm"))
    os.makedirs(os.path.join(d, "base"))
    flat = bvmdk.build({"kind": "flat", "capacity": 64, "holes": [], "layer": 1})[0]
    flat.write_to(os.path.join(d, "base", "base-flat.vmdk"))
    with open(os.path.join(d, "base", "base.vmdk"), "w") as f:
        f.write(bvmdk.descriptor_text({"extents": [{"sectors": 64, "type": "FLAT", "file": "base-flat.vmdk", "offset": 0}], "create_type": "monolithicFlat"}))
    for j, (kind, cap) in enumerate([("kdmv", 40), ("cowd", 24)]):
        spec = {"kind": kind, "capacity": cap, "grain": 8, "grains": [[0, "a", 0], [2, "a", 1]], "present_gts": [], "pad": 0, "layer": 2 + j}
        if kind == "kdmv":
            spec.update(gtes=512, compressed=False, zero_flag=False, redundant=False, meta_first=True, version=1)
        bvmdk.build(spec)[0].write_to(os.path.join(d, "vm", f"delta-s00{j}.vmdk"))
    with open(os.path.join(d, "vm", "delta.vmdk"), "w") as f:
        f.write(bvmdk.descriptor_text({"parent_cid": "11223344", "parent_hint": "base/base.vmdk", "extents": [
            {"sectors": 40, "type": "SPARSE", "file": "delta-s000.vmdk"}, {"sectors": 24, "type": "VMFSSPARSE", "file": "delta-s001.vmdk"}]}))
    info["vmdk"] = os.path.join(d, "vm", "delta.vmdk")
    # delta descriptors whose parent is not where the hint says: spelled in another case, or never acquired
    for nm, hint in (("orphan1.vmdk", "BASE/Base.VMDK"), ("orphan2.vmdk", "gone/missing.vmdk")):
        with open(os.path.join(d, "vm", nm), "w") as f:
            f.write(bvmdk.descriptor_text({"parent_cid": "11223344", "parent_hint": hint, "extents": [
                {"sectors": 40, "type": "SPARSE", "file": "delta-s000.vmdk"}]}))
    info["vmdk-orphans"] = [os.path.join(d, "vm", "orphan1.vmdk"), os.path.join(d, "vm", "orphan2.vmdk")]
    # a large preallocated FLAT extent (sparse on disk, >= 128 MiB)
    big = 130 << 20
    with open(os.path.join(d, "vm", "big-flat.vmdk"), "wb") as f:
        f.truncate(big)
        f.seek(big - 4096)
        f.write(b"tail" * 1024)
    with open(os.path.join(d, "vm", "big.vmdk"), "w") as f:
        f.write(bvmdk.descriptor_text({"extents": [{"sectors": big // 512, "type": "VMFS" if n % 2 else "FLAT", "file": "big-flat.vmdk", "offset": 0 if n % 2 == 0 else None}],
                                       "create_type": "vmfs"}))
    info["vmdk-big"] = os.path.join(d, "vm", "big.vmdk")
    # a flat extent that lost its tail on the way (a thin / interrupted copy): shorter than its descriptor line says, not empty
    with open(os.path.join(d, "vm", "short-flat.vmdk"), "wb") as f:
        f.write(bytes(range(256)) * (2 * (20 + n % 20)))
    with open(os.path.join(d, "vm", "short.vmdk"), "w") as f:
        f.write(bvmdk.descriptor_text({"extents": [{"sectors": 64, "type": "VMFS" if n % 2 else "FLAT", "file": "short-flat.vmdk", "offset": 0 if n % 2 == 0 else None}],
                                       "create_type": "monolithicFlat"}))
    info["vmdk-short"] = os.path.join(d, "vm", "short.vmdk")
    # a fixed VHD of 33 MiB kept gzip-compressed (the caller opens it with gzip.open)
    with open(os.path.join(d, "vm", "fixed.vhd.gz"), "wb") as f:
        f.write(big_vhd_gz())
    info["vhd-gz"] = os.path.join(d, "vm", "fixed.vhd.gz")
    # VHDX child + parent
    os.makedirs(os.path.join(d, "hv"))
    bvhdx.build(c12.VHDX_SPEC)[0].write_to(os.path.join(d, "hv", "parent.vhdx"))
    child = dict(c12.VHDX_SPEC, has_parent=True, blocks=[[1, 7, 5]], partial={"1": [[3, 9]]}, sb=[[0, 6]], meta_order=[0, 1, 2, 3, 4, 5],
                 locator=[["relative_path", ".\\parent.vhdx"]])
    bvhdx.build(child)[0].write_to(os.path.join(d, "hv", "child.avhdx"))
    info["vhdx"] = os.path.join(d, "hv", "child.avhdx")
    # Parallels
    root = os.path.join(d, "p.pvm", "disk.hdd")
    os.makedirs(root)
    g1 = "1a2b3c4d-0000-4000-8000-00000000000a"
    for g in (g1, bhdd.DEFAULT_TOP):
        with open(os.path.join(root, f"disk.hdd.0.{{{g}}}.hds"), "wb") as f:
            f.write(c12.base_hds(2))
    with open(os.path.join(root, "DiskDescriptor.xml"), "w") as f:
        f.write(bhdd.descriptor_xml({"disk_size": 24, "storages": [{"start": 0, "end": 24, "images": [
            {"guid": g, "type": "Compressed", "file": f"disk.hdd.0.{{{g}}}.hds"} for g in (g1, bhdd.DEFAULT_TOP)]}],
            "shots": [{"guid": g1, "parent": bhdd.NULL_GUID}, {"guid": bhdd.DEFAULT_TOP, "parent": g1}]}))
    info["hdd"] = root
    info["hdd-guid"] = g1
    # the same disk acquired while the VM was running (or after a crash): the images still carry the in-use mark
    run_root = os.path.join(d, "p.pvm", "running.hdd")
    os.makedirs(run_root)
    in_use = bhdd.build({"version": 2, "cluster_sectors": 8, "size_sectors": 24, "bat_entries": 3, "first_block_offset": 8,
                         "in_use": True, "alloc": [[0, 8], [2, 16]], "layer": 0})[0].materialize()
    for g in (g1, bhdd.DEFAULT_TOP):
        with open(os.path.join(run_root, f"disk.hdd.0.{{{g}}}.hds"), "wb") as f:
            f.write(in_use)
    shutil.copy(os.path.join(root, "DiskDescriptor.xml"), os.path.join(run_root, "DiskDescriptor.xml"))
    info["hdd-in-use"] = run_root
    # .hdd directories caught in the middle of a descriptor update: only the .Backup copy, or an empty descriptor next to it
    desc_text = open(os.path.join(root, "DiskDescriptor.xml")).read()
    info["hdd-broken"] = []
    for nm, empty in (("half1.hdd", False), ("half2.hdd", True)):
        hb = os.path.join(d, "p.pvm", nm)
        os.makedirs(hb)
        with open(os.path.join(hb, "DiskDescriptor.xml.Backup"), "w") as f:
            f.write(desc_text)
        if empty:
            open(os.path.join(hb, "DiskDescriptor.xml"), "w").close()
        info["hdd-broken"].append(hb)
    # envelope + keystore
    ks = {"key_id": bytes(range(16)).hex(), "data1": bytes(range(8)).hex(), "data2": bytes(range(8, 16)).hex()}
    text, key, _id = benv.keystore_text(ks)
    spec = dict(c12.ENV_SPEC, key=key.hex(), payload_len=5000 + n % 4096)
    data, payload, _a, _r = benv.build(spec)
    os.makedirs(os.path.join(d, "esx"))
    with open(os.path.join(d, "esx", "local.tgz.ve"), "wb") as f:
        f.write(data)
    with open(os.path.join(d, "esx", "encryption.info"), "w") as f:
        f.write(text)
    with open(os.path.join(d, "esx", "wrong.info"), "w") as f:
        f.write(benv.keystore_text(dict(ks, data1="ff"))[0])
    # the same envelope under names that do not end in a lower-case ".ve", and one larger than a decrypt chunk (4 MiB)
    for nm in ("STATE.TGZ.VE", "state"):
        with open(os.path.join(d, "esx", nm), "wb") as f:
            f.write(data)
    bigspec = dict(c12.ENV_SPEC, key=key.hex(), payload_len=(4 << 20) + 1 + n % 70000 if n % 3 else (8 << 20) + n % 4096)
    bigdata, bigpayload, _a, _r = benv.build(bigspec)
    with open(os.path.join(d, "esx", "big.tgz.ve"), "wb") as f:
        f.write(bigdata)
    info.update(envelope_big=os.path.join(d, "esx", "big.tgz.ve"), payload_big=bigpayload, envelope_big_bytes=bigdata,
                envelope_odd=[os.path.join(d, "esx", nm) for nm in ("STATE.TGZ.VE", "state")])
    info.update(envelope=os.path.join(d, "esx", "local.tgz.ve"), keystore=os.path.join(d, "esx", "encryption.info"),
                wrong_keystore=os.path.join(d, "esx", "wrong.info"), key=key, payload=payload, envelope_bytes=data)
    # vmtar
    raw, _e = c20.build({"members": [{"kind": "visor-file", "name": "a", "longname": None, "mode": 0o644, "mtime": 1, "size": 900, "key": 9, "text_pgs": 0, "fixup_pgs": 0},
                                     {"kind": "std-file", "name": "b", "longname": None, "mode": 0o644, "mtime": 1, "size": 10, "key": 4}],
                         "data_order": [0], "align": 4096, "gap": 0, "end_blocks": 2, "trailing": 0, "gzip": False, "via": "name"})
    with open(os.path.join(d, "esx", "s.v00"), "wb") as f:
        f.write(raw)
    info["vmtar"] = os.path.join(d, "esx", "s.v00")
    # zero-length placeholders (and a gzip of nothing) where an archive is expected
    for nm, content in (("empty.v00", b""), ("empty.vgz", gzip_of_nothing())):
        with open(os.path.join(d, "esx", nm), "wb") as f:
            f.write(content)
    info["vmtar-empty"] = [os.path.join(d, "esx", "empty.v00"), os.path.join(d, "esx", "empty.vgz")]
    import gzip

    with open(os.path.join(d, "esx", "s.vgz"), "wb") as f:
        f.write(gzip.compress(raw, 6, mtime=0))
    info["vmtar-gz"] = os.path.join(d, "esx", "s.vgz")
    # a differencing VHDX whose parent is only reachable through absolute_win32_path
    os.makedirs(os.path.join(d, "hv2"))
    os.makedirs(os.path.join(d, "elsewhere"))
    bvhdx.build(c12.VHDX_SPEC)[0].write_to(os.path.join(d, "elsewhere", "p.vhdx"))
    abs_win = os.path.join(d, "elsewhere", "p.vhdx").lstrip("/").replace("/", "\\")
    child2 = dict(child, locator=[["relative_path", "..\\gone\\p.vhdx"], ["absolute_win32_path", abs_win]])
    bvhdx.build(child2)[0].write_to(os.path.join(d, "hv2", "child.avhdx"))
    info["vhdx-abs"] = os.path.join(d, "hv2", "child.avhdx")
    # a Hyper-V file with outstanding replay-log entries ("dirty")
    hv = bytearray(c12.base_hyperv()[0])
    replay = c12.base_hyperv()[1]
    import struct

    struct.pack_into("<I", hv, replay + 8, 2)
    for i in range(2):
        struct.pack_into("<QIIIII", hv, replay + 34 + 28 * i, 0x3000 + 0x100 * i, 16, 0, 0, 0, 0)
    os.makedirs(os.path.join(d, "hyperv"), exist_ok=True)
    with open(os.path.join(d, "hyperv", "vm.vmcx"), "wb") as f:
        f.write(bytes(hv))
    # a Hyper-V file holding a value in a separate file object (>= 0x800 bytes)
    from hv.builders import hyperv as bhv_

    os.makedirs(os.path.join(d, "hyperv"), exist_ok=True)

    fo_spec = dict(c12.HV_SPEC, entries=list(c12.HV_SPEC["entries"]) + [
        {"id": 3, "parent": 0, "key": "blob", "type": "array", "value": bytes(range(256)).hex() * 10, "table": 2, "fo": True}])
    with open(os.path.join(d, "hyperv", "state.vmrs"), "wb") as f:
        f.write(bhv_.build(fo_spec)[0])
    info["hyperv-fo"] = os.path.join(d, "hyperv", "state.vmrs")
    info["hyperv-dirty"] = os.path.join(d, "hyperv", "vm.vmcx")
    info["hyperv-dirty-bytes"] = bytes(hv)
    # plain single images for caller-supplied (writable) handles
    os.makedirs(os.path.join(d, "img"))
    from hv.props import c11

    seeds = c11.seeds()
    for key, sname in (("qcow2", "qcow2"), ("vdi", "vdi"), ("vhd", "vhd-dyn"), ("hds", "hds-v2"), ("kdmv", "vmdk-kdmv"), ("vhdx-plain", "vhdx")):
        p = os.path.join(d, "img", key + ".img")
        with open(p, "wb") as f:
            f.write(seeds[sname][1])
        info[key] = p
    return info


def run_scenario(spec, out):
    from dissect.hypervisor.disk.hdd import HDD
    from dissect.hypervisor.disk.vhdx import VHDX
    from dissect.hypervisor.disk.vmdk import VMDK
    from dissect.hypervisor.tools import envelope as tool
    from dissect.hypervisor.util import vmtar
    from dissect.hypervisor.util.envelope import Envelope, KeyStore

    d = scratch_dir()
    outdir = scratch_dir()
    old_argv = sys.argv
    try:
        info = build_evidence(d, spec["n"])
        before = manifest(d)
        allowed = os.path.join(outdir, "out.bin")
        outsub = os.path.join(outdir, "sub")
        os.mkdir(outsub)
        # the process works from an empty directory of its own: whatever appears there was written "somewhere handy"
        cwdmon = os.path.join(outdir, "cwd")
        os.mkdir(cwdmon)
        start_cwd = os.getcwd()
        os.chdir(cwdmon)
        opened = []
        with audit.recording(allow={allowed}) as state:
            for op in spec["ops"]:
                def step():
                    if op in ("vmdk-open", "vmdk-read"):
                        v = VMDK(Path(info["vmdk"]))
                        opened.append(v)
                        if op == "vmdk-read":
                            v.seek(0)
                            v.read(64 * 512)
                    elif op == "vmdk-flat-big":
                        v = VMDK(info["vmdk-big"])
                        opened.append(v)
                        v.seek(v.size - 8192)
                        v.read(8192)
                    elif op in ("vhdx-open", "vhdx-read"):
                        v = VHDX(Path(info["vhdx"]))
                        opened.append(v)
                        if op == "vhdx-read":
                            v.seek(1 << 20)
                            v.read(20000)
                    elif op in ("hdd-open", "hdd-read", "hdd-guid"):
                        h = HDD(Path(info["hdd"]) if op != "hdd-read" else Path(info["hdd"]) / "DiskDescriptor.xml")
                        s = h.open(info["hdd-guid"]) if op == "hdd-guid" else h.open()
                        opened.append(s)
                        s.read(8192)
                    elif op == "envelope-decrypt":
                        with open(info["envelope"], "rb") as fh:
                            Envelope(fh).decrypt(info["key"])
                        bio = core.track(info["envelope_bytes"])
                        Envelope(bio).decrypt(info["key"])
                    elif op == "envelope-decrypt-big":
                        with open(info["envelope_big"], "rb") as fh:
                            if Envelope(fh).decrypt(info["key"]) != info["payload_big"]:
                                raise AssertionError("decrypt() of a payload > 4 MiB differs from the payload")
                        Envelope(core.track(info["envelope_big_bytes"])).decrypt(info["key"])
                    elif op == "cli-big":
                        sys.argv = ["envelope-decrypt", info["envelope_big"], "-ks", info["keystore"], "-o", allowed]
                        try:
                            tool.main()
                        finally:
                            sys.argv = old_argv
                        with open(allowed, "rb") as f:
                            if f.read() != info["payload_big"]:
                                raise AssertionError("CLI output differs from the payload (> 4 MiB)")
                    elif op == "cli-decomposed-name":
                        # -o names a file whose name is not NFC-normalised; a file with the composed spelling sits next to it
                        dec = os.path.join(outsub, "re\u0301sume\u0301.bin")
                        comp = os.path.join(outsub, "r\u00e9sum\u00e9.bin")
                        with open(comp, "wb") as f:
                            f.write(b"precious")
                        sys.argv = ["envelope-decrypt", info["envelope"], "-ks", info["keystore"], "-o", dec]
                        try:
                            tool.main()
                        finally:
                            sys.argv = old_argv
                        ok = os.path.exists(dec) and open(dec, "rb").read() == info["payload"] and open(comp, "rb").read() == b"precious"
                        for pth in (dec, comp):
                            if os.path.exists(pth):
                                os.remove(pth)
                        if not ok:
                            raise AssertionError("CLI output did not go to the exact (decomposed) name the user gave, or its composed twin was touched")
                    elif op == "qcow2-bad-deflate":
                        from dissect.hypervisor.disk.qcow2 import QCow2

                        img = bytearray(open(info["qcow2"], "rb").read())
                        # damage every compressed cluster's deflate stream (L2 entries with bit 62 set point at them)
                        import struct as _st

                        for off in range(1 << 12, len(img) - 8, 8):
                            v = _st.unpack_from(">Q", img, off)[0]
                            if v >> 62 == 1 and (v & ((1 << 54) - 1)) < len(img):
                                cpos = v & ((1 << 54) - 1)
                                img[cpos : cpos + 16] = b"\xff" * 16
                        q = QCow2(core.track(bytes(img)))
                        for off in range(0, q.size, 1 << 12):
                            try:
                                q.seek(off)
                                q.read(512)
                            except Exception:  # noqa: BLE001 - failing to inflate is fine
                                pass
                    elif op == "hdd-in-use":
                        s = HDD(Path(info["hdd-in-use"])).open()
                        opened.append(s)
                        s.read(8192)
                    elif op == "vmdk-short-flat":
                        v = VMDK(Path(info["vmdk-short"]))
                        opened.append(v)
                        try:
                            v.read(64 * 512)
                        except Exception:  # noqa: BLE001 - what a read beyond the short file gives is not this property's business
                            pass
                    elif op == "vhd-gzip-big":
                        import gzip

                        from dissect.hypervisor.disk.vhd import VHD

                        with gzip.open(info["vhd-gz"], "rb") as gz:
                            v = VHD(gz)
                            v.seek(v.size - 4096)
                            v.read(4096)
                    elif op == "vmdk-missing-parent":
                        for pth in info["vmdk-orphans"]:
                            try:
                                opened.append(VMDK(Path(pth)))
                            except Exception:  # noqa: BLE001 - refusing is what is expected; probing the directory by writing is not
                                pass
                    elif op == "hdd-backup-descriptor":
                        for hb in info["hdd-broken"]:
                            try:
                                HDD(Path(hb)).open()
                            except Exception:  # noqa: BLE001 - refusing is fine, repairing the evidence is not
                                pass
                    elif op == "vmtar-odd-handles":
                        # readable handles whose mode attribute does not say "r": a spooled temporary file, append / exclusive-create files
                        import tempfile as _tf

                        gz = open(info["vmtar-gz"], "rb").read()
                        raw_ = open(info["vmtar"], "rb").read()
                        for content in (gz, raw_):
                            handles = [_tf.SpooledTemporaryFile(max_size=1 << 22)]
                            handles[0].write(content)
                            pa = os.path.join(outdir, f"app-{len(content)}.bin")
                            with open(pa, "wb") as f:
                                f.write(content)
                            handles.append(open(pa, "a+b"))
                            for h in handles:
                                for opener in (vmtar.open, vmtar.VisorTarFile):
                                    h.seek(0)
                                    try:
                                        t = opener(fileobj=h)
                                        t.getmembers()
                                    except (tarfile.TarError, OSError, EOFError, ValueError):
                                        pass
                                    h.seek(0)
                                    if h.read() != content:
                                        raise AssertionError("handle: the bytes behind a caller-supplied handle changed")
                                h.close()
                            os.remove(pa)
                    elif op == "envelope-spooled":
                        # an in-memory spooled temporary file: asking it for a file descriptor makes it write itself to disk
                        import tempfile as _tf

                        h = _tf.SpooledTemporaryFile(max_size=1 << 24)
                        h.write(info["envelope_bytes"])
                        h.seek(0)
                        if Envelope(h).decrypt(info["key"]) != info["payload"]:
                            raise AssertionError("envelope from a spooled temporary file decrypts to other bytes")
                        if getattr(h, "_rolled", False):
                            raise AssertionError("handle: the caller's in-memory spooled file was rolled over to disk by the library")
                        h.close()
                    elif op == "reader-closed":
                        # the reader is closed / leaves its with-block / is dropped: the caller's file object stays open (a
                        # delete-on-close temporary file would be gone otherwise)
                        import gc as _gc
                        import tempfile as _tf

                        src = os.path.join(os.path.dirname(info["vmdk"]), "delta-s000.vmdk")
                        with open(src, "rb") as f:
                            content = f.read()
                        ntf = _tf.NamedTemporaryFile(dir=outdir, suffix=".vmdk")
                        ntf.write(content)
                        ntf.flush()
                        for how in ("with", "close", "drop"):
                            ntf.seek(0)
                            v = VMDK(ntf)
                            v.read(512)
                            if how == "with":
                                with v:
                                    pass
                            elif how == "close":
                                v.close()
                            del v
                            _gc.collect(1)
                            if ntf.closed or not os.path.exists(ntf.name):
                                raise AssertionError(f"handle: the caller's temporary file was closed / deleted when the reader was released ({how})")
                        ntf.close()
                    elif op == "vmtar-empty":
                        for pth in info["vmtar-empty"]:
                            for how in ("name", "handle", "rw-handle"):
                                try:
                                    if how == "name":
                                        t = vmtar.open(pth)
                                    else:
                                        fh_ = open(pth, "rb" if how == "handle" else "r+b")
                                        opened.append(fh_)
                                        t = vmtar.open(fileobj=fh_)
                                    t.getmembers()
                                    t.close()
                                except (tarfile.TarError, OSError, EOFError):
                                    pass  # refusing an empty file is fine; touching it is not
                    elif op == "cli-relative-output":
                        # a relative -o is relative to the working directory, wherever the envelope lives
                        here = os.getcwd()
                        os.chdir(outdir)
                        try:
                            for rel in ("out.bin", "local.tgz"):
                                sys.argv = ["envelope-decrypt", info["envelope"], "-ks", info["keystore"], "-o", rel]
                                tool.main()
                                with open(os.path.join(outdir, rel), "rb") as f:
                                    if f.read() != info["payload"]:
                                        raise AssertionError("CLI output (relative -o) differs from the payload")
                            os.remove(os.path.join(outdir, "local.tgz"))
                        finally:
                            sys.argv = old_argv
                            os.chdir(here)
                    elif op == "hyperv-fileobject":
                        from dissect.hypervisor.descriptor.hyperv import HyperVFile

                        for mode in ("rb", "r+b"):
                            with open(info["hyperv-fo"], mode) as fh:
                                hf = HyperVFile(fh)
                                hf.as_dict()
                                for fo in list(hf.file_objects.values()):
                                    st_ = fo.open()
                                    st_.read(100)
                                    if st_ is not fh and hasattr(st_, "close") and getattr(st_, "_fh", fh) is not fh:
                                        st_.close()
                    elif op == "vmdk-rw-descriptor-handle":
                        # the descriptor comes as a handle the caller opened read-write; what the library opens itself stays read-only
                        with open(info["vmdk"], "r+b") as fh:
                            v = VMDK(fh)
                            opened.append(v)
                            v.read(4096)
                        with open(os.path.join(os.path.dirname(info["vmdk"]), "delta-s000.vmdk"), "r+b") as fh:
                            v = VMDK([fh, Path(os.path.dirname(info["vmdk"])) / "delta-s001.vmdk"])
                            opened.append(v)
                            v.read(4096)
                    elif op in ("cli-output-dir", "cli-output-evidence-dir"):
                        # -o names a directory: an error today; whatever a tool does with it, it must stay inside that directory
                        # and must not touch the evidence (here the envelope lives in the directory named, or elsewhere)
                        target = os.path.dirname(info["envelope"]) if op == "cli-output-evidence-dir" else outsub
                        for env_path in [info["envelope"], *info["envelope_odd"]]:
                            sys.argv = ["envelope-decrypt", env_path, "-ks", info["keystore"], "-o", target]
                            try:
                                tool.main()
                            except (OSError, SystemExit):
                                pass
                            finally:
                                sys.argv = old_argv
                    elif op in ("cli", "cli-existing-output", "cli-wrong-key"):
                        if op == "cli-existing-output":
                            with open(allowed, "wb") as f:
                                f.write(b"old" * 4000)
                            with open(allowed + ".tmp", "wb") as f:
                                f.write(b"precious")
                        ks = info["wrong_keystore"] if op == "cli-wrong-key" else info["keystore"]
                        sys.argv = ["envelope-decrypt", info["envelope"], "-ks", ks, "-o", allowed]
                        try:
                            tool.main()
                        finally:
                            sys.argv = old_argv
                        if op != "cli-wrong-key":
                            with open(allowed, "rb") as f:
                                if f.read() != info["payload"]:
                                    raise AssertionError("CLI output differs from the payload")
                    elif op in ("vmtar-list", "vmtar-extract"):
                        t = vmtar.open(info["vmtar"])
                        opened.append(t)
                        ms = t.getmembers()
                        if op == "vmtar-extract":
                            for m in ms:
                                if m.isreg():
                                    t.extractfile(m).read()
                    elif op == "keystore":
                        KeyStore.from_text(Path(info["keystore"]).read_text())
                    elif op == "vmtar-modes":
                        for name, modes in ((info["vmtar"], ["r", "r:", "r:*", "r|*"]), (info["vmtar-gz"], ["r:gz", "r:*", "r|gz"])):
                            for mode in modes:
                                t = vmtar.open(name, mode)
                                for m in t:
                                    if m.isreg():
                                        t.extractfile(m).read()
                                t.close()
                    elif op == "vhdx-abs-parent":
                        v = VHDX(Path(info["vhdx-abs"]))
                        opened.append(v)
                        v.seek(1 << 20)
                        v.read(20000)
                    elif op == "hyperv-dirty":
                        from dissect.hypervisor.descriptor.hyperv import HyperVFile

                        with open(info["hyperv-dirty"], "r+b") as fh:  # a caller may well hand over a writable handle
                            HyperVFile(fh).as_dict()
                        HyperVFile(core.track(info["hyperv-dirty-bytes"])).as_dict()
                    elif op == "rw-handles":
                        from dissect.hypervisor.disk.hdd import HDS
                        from dissect.hypervisor.disk.qcow2 import QCow2
                        from dissect.hypervisor.disk.vdi import VDI
                        from dissect.hypervisor.disk.vhd import VHD

                        for cls_, key in ((QCow2, "qcow2"), (VDI, "vdi"), (VHD, "vhd"), (HDS, "hds"), (VMDK, "kdmv"), (VHDX, "vhdx-plain")):
                            with open(info[key], "r+b") as fh:
                                s_ = cls_(fh)
                                s_.seek(0)
                                s_.read(20000)
                            b = core.track(open(info[key], "rb").read())
                            s_ = cls_(b)
                            s_.read(4096)
                _v, err = lib(step)
                if err is not None and not (op == "cli-wrong-key"):
                    if isinstance(err.exc, AssertionError):
                        out.fail("mutated|supplied-handle" if str(err.exc).startswith("handle:") else "mismatch|cli-output", str(err.exc))
                    # other exceptions are not this property's business (functional checks live elsewhere)
            events = list(state["events"])
            opens = dict(state["opens"])
        for o in opened:
            _close_any(o)
        after = manifest(d)
        if after != before:
            changed = sorted(set(k for k in set(before) | set(after) if before.get(k) != after.get(k)))
            out.fail("mutated|evidence-dir", f"evidence directory changed: {changed[:4]}")
        left = sorted(os.listdir(cwdmon))
        if left:
            out.fail("mutated|working-directory", f"files appeared in the working directory: {left[:4]}")
        extra = sorted(set(os.listdir(outdir)) - {"out.bin", "sub", "cwd"})
        if "cli-existing-output" in spec["ops"]:
            tmp = allowed + ".tmp"
            if not os.path.exists(tmp) or open(tmp, "rb").read() != b"precious":
                out.fail("mutated|output-sibling", "a file next to the CLI's --output path was overwritten or removed")
            extra = [e for e in extra if e != "out.bin.tmp"]
        if extra:
            out.fail("mutated|output-dir", f"the CLI created files other than --output: {extra}")
        return events, opens
    finally:
        sys.argv = old_argv
        try:
            os.chdir(start_cwd)
        except (NameError, OSError):
            pass
        shutil.rmtree(d, ignore_errors=True)
        shutil.rmtree(outdir, ignore_errors=True)


def _close_any(o, depth=0):
    if o is None or depth > 6:
        return
    for attr in ("fh", "fileobj"):
        f = getattr(o, attr, None)
        if f is not None and hasattr(f, "close"):
            try:
                f.close()
            except Exception:  # noqa: BLE001
                pass
    for d in getattr(o, "disks", []) or []:
        _close_any(d, depth + 1)
    for _s, st_ in getattr(o, "streams", []) or []:
        _close_any(st_, depth + 1)
    _close_any(getattr(o, "parent", None), depth + 1)
    if hasattr(o, "close") and not hasattr(o, "fh"):
        try:
            o.close()
        except Exception:  # noqa: BLE001
            pass


def check(spec) -> Outcome:
    out = Outcome()
    w = spec["workload"]
    out.cls("workload-" + w)
    sparse_mod.WRITE_LOG.clear()
    core.release_tracked()
    core.MUTATION_CALLS.clear()
    try:
        if w == "scenario":
            events, opens = run_scenario(spec, out)
        else:
            mod = importlib.import_module(f"hv.props.{w.lower()}")
            with audit.recording() as state:
                inner = mod.check(spec["inner"])
                events = list(state["events"])
                opens = dict(state["opens"])
            # functional failures of the inner property are that property's business; keep only the classes
            out.cls(*[f"inner:{c}" for c in inner.classes[:3]])
    finally:
        pass
    for kind, path, mode, site in events[:4]:
        out.fail(f"{kind}|{site.split(':')[0]}", f"{kind} {path} {mode} from {site}")
    for rec in sparse_mod.WRITE_LOG[:3]:
        out.fail(f"handle-{rec[0]}", f"the library called {rec[0]}() on a supplied handle: {rec}")
    if core.release_tracked():
        out.fail("handle-content-changed", "a supplied in-memory handle was modified in place")
    for rec in core.MUTATION_CALLS[:3]:
        out.fail(f"handle-{rec[0]}", f"the library called {rec[0]}() on a supplied in-memory handle: {rec}")
    core.MUTATION_CALLS.clear()
    sparse_mod.WRITE_LOG.clear()
    out.nontrivial = bool(opens)
    for site, n in opens.items():
        out.cls("opensite:" + site)
    return out


def extra_evidence():
    """Trivial source scan for the call sites that could open a file, to set against the `opensite:` classes reached."""
    import re

    from hv.core import REPO_DIR

    sites = []
    root = os.path.join(REPO_DIR, "dissect", "hypervisor")
    pat = re.compile(r"(?<![\w.])open\(|\.open\(|read_text\(|read_bytes\(|os\.open\(|mmap\(")
    for dp, _dn, fn in os.walk(root):
        for n in sorted(fn):
            if n.endswith(".py"):
                for i, line in enumerate(open(os.path.join(dp, n), errors="replace"), 1):
                    code = line.split("#", 1)[0]
                    if pat.search(code) and "def open" not in code and ".open()" not in code.replace(" ", ""):
                        sites.append(f"{n}:{i}: {code.strip()[:80]}")
    return {"open_call_sites_in_source": sites}
