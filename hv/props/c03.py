"""C03 — VHDX (non-differencing): every byte range reads as the guest-visible content."""
from __future__ import annotations

from hypothesis import strategies as st

from hv import strat
from hv.builders import vhdx as bvhdx
from hv.core import DEBUG_LOG_ENV, Outcome, check_reads, lib

ID = "C03"
RULE = (
    "Hypothesis draws non-differencing VHDX specs (block size 2^20..2^28, logical sector 512/4096, virtual size any sector "
    "multiple incl. more than chunk_ratio blocks so sector-bitmap entries interleave in the BAT, BAT states "
    "{0,1,2,3,6} for a sparse described set, payload blocks at any 1 MiB offsets/permutation/gaps incl. beyond 4 GiB and "
    "4 TiB or in front of the BAT / metadata regions, the last metadata item flush with the end of its region, two headers with arbitrary sequence numbers (the inactive one sometimes invalid or still carrying a LogGuid), regions and metadata items in "
    "any order, optionally a third, unknown and not-required region entry in any position, optionally an unknown not-required metadata item (user or system)) plus requests biased to the boundaries of described blocks; an independent writer (MS-VHDX) builds image + "
    "model; VHDX(fh).read / read_sectors must equal the model. Non-trivial = a request starts mid-block and crosses into a "
    "block that is not physically adjacent, or touches a block index >= chunk_ratio."
    ' Creator fields filled to the last unit, cut inside a surrogate pair or holding arbitrary bytes; images also opened through a minimal file object or by a second reader on the same handle after the first was dropped; a second process variant runs with debug logging switched on.'
)
RULE += ' Round 10: transient OSError then retry; content flavours; two readers over one handle; anonymous temp-file handles; an unknown not-required metadata item.'
ASSUMPTIONS = [
    "only the metadata items the specification defines as system items are written (no user metadata)",
    "CRC-32C checksums of headers and region tables are written correctly; the reader does not verify them",
]


def budget(tier):
    return 5000 if tier == "quick" else 30000


VARIANT_DISTINCT_SEEDS = True


def variants(tier):
    # the module's logging switch (read at import time) must not change what is read
    return [{"name": "default", "env": {}, "shards": 12},
            {"name": "debug-logging", "env": DEBUG_LOG_ENV, "args": {"budget_scale": 0.2}, "shards": 4}]


@st.composite
def vhdx_spec(draw, tier="quick", layer=0, geometry=None, has_parent=False):
    if geometry:
        bs, ss, nb, size = geometry
    else:
        bits = draw(st.one_of(st.sampled_from([20, 21, 25, 28, 28]), st.integers(20, 28)))
        bs = 1 << bits
        ss = draw(st.sampled_from([512, 512, 4096]))
        cr = ((1 << 23) * ss) // bs
        nb = draw(st.one_of(st.integers(1, 6), st.integers(1, 40),
                            st.sampled_from([cr - 1, cr, cr + 1, cr + 2, 2 * cr, 2 * cr + 1, 2 * cr + 3])))
        nb = max(1, nb)
        last = draw(st.one_of(st.just(bs), st.sampled_from([ss, 2 * ss, 8192 + ss, bs - ss]), st.integers(1, bs // ss).map(lambda k: k * ss)))
        last = max(ss, min(bs, last))
        size = (nb - 1) * bs + last
    cr = ((1 << 23) * ss) // bs
    desc = set(draw(strat.sparse_subset(nb, 20)))
    for b in (cr - 1, cr, cr + 1, 2 * cr, nb - 1, 0):
        if 0 <= b < nb and draw(st.booleans()):
            desc.add(b)
    desc = sorted(desc)
    states = [draw(st.sampled_from([6, 6, 6, 6, 0, 1, 2, 3])) for _ in desc]
    present = [b for b, s in zip(desc, states) if s == 6]
    slots = draw(strat.placement(len(present)))
    bmb = bs // bvhdx.MB
    # regions
    g1, g2, g3 = (draw(st.sampled_from([0, 0, 1, 3])) for _ in range(3))
    spb, chunk_ratio, pb_count, sb_count, nentries = bvhdx.geometry({"block_size": bs, "sector_size": ss, "size": size, "has_parent": has_parent})
    bat_mb = (nentries * 8 + bvhdx.MB - 1) // bvhdx.MB
    first = 2 + g1
    unaligned = draw(st.sampled_from([0, 0, 1])) if bmb > 1 else 0
    pad = draw(st.sampled_from([0, 0, 1]))
    far = draw(st.sampled_from([0, 0, 0, 4096, 4095, (1 << 22) + 1, (1 << 40) - 7]))
    data_first = draw(st.sampled_from([False, False, False, True]))
    if data_first:
        # payload blocks in front of the BAT and metadata regions (a file whose regions were relocated behind older blocks)
        base = first + (far if far < 1 << 30 else 0)
        first = base + unaligned + (max(slots, default=-1) + 1) * (bmb + pad) + 1 + g1
    if draw(st.booleans()):
        meta_mb = first
        bat_off_mb = meta_mb + 1 + g2
        after = bat_off_mb + bat_mb + g3
    else:
        bat_off_mb = first
        meta_mb = bat_off_mb + bat_mb + g2
        after = meta_mb + 1 + g3
    if not data_first:
        base = after + far
    where = {b: base + unaligned + s * (bmb + pad) for b, s in zip(present, slots)}
    blocks = [[b, s, where.get(b, draw(st.sampled_from([0, 0, 5, 1 << 30])) if s != 6 else 0)] for b, s in zip(desc, states)]
    # a block that is no longer present (zero / unmapped / undefined) may keep the offset of the space it had, right behind its
    # present neighbour, with the old bytes still there (the builder writes stale data for such entries)
    used = set(where.values())
    for ent in blocks:
        b, s, _f = ent
        if s in (1, 2, 3) and (b - 1) in where and pad == 0 and draw(st.booleans()):
            cand = where[b - 1] + bmb
            if all(abs(cand - u) >= bmb for u in used):
                ent[2] = cand
                used.add(cand)
    s1 = draw(st.one_of(st.sampled_from([0, 1, 65534, (1 << 63)]), st.integers(0, (1 << 64) - 2)))
    s2 = s1 + 1 if draw(st.booleans()) else draw(st.integers(0, (1 << 64) - 1).filter(lambda x: x != s1))
    seq = [s1, s2] if draw(st.booleans()) else [s2, s1]
    return {
        "block_size": bs, "sector_size": ss, "size": size, "seq": seq, "bad_other_header": draw(st.sampled_from([False, False, True])),
        "regions": {"metadata": meta_mb, "bat": bat_off_mb}, "region_order": draw(st.sampled_from(["mb", "bm"])),
        "meta_order": draw(st.permutations(list(range(5)))), "meta_gap": draw(st.sampled_from([0, 0, 4, 100])),
        "meta_tail": draw(st.sampled_from([False, False, True])), "stale_log_guid": draw(st.sampled_from([False, False, True])),
        "extra_region": draw(st.sampled_from([None, None, None, 0, 1, 2])),
        "extra_meta": draw(st.sampled_from([None, None, None, None, "user", "user-vd", "system", "system-vd"])),
        "blocks": blocks, "layer": layer, "leave_allocated": draw(st.sampled_from([False, False, True])), "data_end_mb": base + unaligned + (max(slots, default=-1) + 2) * (bmb + pad),
    }


@st.composite
def strategy_(draw, tier):
    spec = draw(vhdx_spec(tier))
    bs = spec["block_size"]
    pts = []
    for b, s, _ in spec["blocks"]:
        pts += [b * bs, (b + 1) * bs]
    spec["requests"] = draw(strat.requests(spec["size"], bs, count=6, points=pts, whole_limit=4 << 20))
    spec["via_minimal"] = draw(strat.minimal_handle())
    spec["fault"] = draw(strat.fault())
    spec["flavours"] = draw(st.booleans())
    spec["creator"] = draw(st.sampled_from([None, None, None, None, "full", "cut-surrogate", "lone-surrogate", "bytes"]))
    ss = spec["sector_size"]
    spec["sector_requests"] = [[o // ss, max(1, min(n, 1 << 20) // ss)] for o, n in spec["requests"][:2]]
    return spec


def strategy(tier):
    return strategy_(tier)


def nontrivial(spec) -> bool:
    bs, ss, size = spec["block_size"], spec["sector_size"], spec["size"]
    cr = ((1 << 23) * ss) // bs
    bmb = bs // bvhdx.MB
    phys = {b: f for b, s, f in spec["blocks"] if s == 6}
    for off, n in spec["requests"]:
        n = min(n, size - off)
        if n <= 0:
            continue
        b0, b1 = off // bs, (off + n - 1) // bs
        if b1 >= cr:
            return True
        if off % bs and b1 > b0:
            for b in range(b0, b1):
                pa, pb = phys.get(b), phys.get(b + 1)
                if pa is None or pb is None or pb != pa + bmb:
                    return True
    return False


def check(spec) -> Outcome:
    from dissect.hypervisor.disk.vhdx import VHDX

    out = Outcome()
    fh, lay, meta = bvhdx.build(spec)
    out.nontrivial = nontrivial(spec)
    bs, ss = spec["block_size"], spec["sector_size"]
    tag = f"vhdx-ss{ss}"
    out.cls(tag, f"bs=2^{bs.bit_length() - 1}", "interleaved-sb" if meta["bat_entries"] > meta["chunk_ratio"] else "single-chunk",
            "far" if spec["data_end_mb"] > 4096 else "near")
    v, err = lib(VHDX, fh)
    if err:
        out.fail(err.sig(tag + "-open"), f"VHDX() raised {err.describe()}")
        return out
    if v.size != spec["size"]:
        out.fail(f"mismatch|{tag}-size", f"size {v.size} != {spec['size']}")
    check_reads(out, v, lay, spec["requests"], tag, fault=spec.get("fault"), fault_fh=fh)
    from hv.core import also_minimal

    also_minimal(out, spec, fh, VHDX, lay, spec["requests"], tag, limit=24 << 20)
    for s, c in spec.get("sector_requests", []):
        c = min(c, spec["size"] // ss - s)
        if c <= 0:
            continue
        got, err = lib(v.read_sectors, s, c)
        if err:
            out.fail(err.sig(tag + "-sectors"), f"read_sectors({s}, {c}) raised {err.describe()}")
        elif got != lay.read_at(s * ss, c * ss):
            out.fail(f"mismatch|{tag}-sectors", f"read_sectors({s}, {c}) differs from model")
    return out
