"""C10 — Descriptor-driven multi-extent assembly and size accounting."""
from __future__ import annotations

import os
import shutil
import tempfile
from pathlib import Path

from hypothesis import strategies as st

from hv import strat
from hv.builders import hdd as bhdd
from hv.builders import vmdk as bvmdk
from hv.core import Outcome, check_reads, lib
from hv.props import c02, c06
from hv.sparse import Extents, Pat, SparseFile, Sub, copy_shifted

ID = "C10"
RULE = (
    "Hypothesis draws (a) VMDK descriptor files in a temp dir with 1..6 extents of kinds FLAT, VMFS (raw), SPARSE (KDMV), "
    "VMFSSPARSE (COWD) and SESPARSE, each with its own size (incl. sizes that are not a multiple of 16 sectors) and grain map, "
    "file names from letters/digits/space/quotes/parentheses/unicode/emoji incl. inner double quotes, descriptor text with "
    "comments, blank lines, CRLF/LF, ddb lines, access modes RW/RDONLY/NOACCESS and optional trailing start sector; (b) explicit "
    "handle lists VMDK([fh, ...]) and path lists VMDK([Path | str, ...]) used for two successive opens; (c) Parallels .hdd directories with 1..6 storages (Plain or Compressed) in shuffled "
    "document order, optionally with one snapshot on top whose images are listed before or after their base; explicit handle lists whose handles "
    "are shared by two readers with alternating requests or listed twice; extent file names in decomposed Unicode form. Requests are weighted to +-1 sector around every extent boundary and the disk tail. Oracle: concatenation "
    "model; size == sum, descriptor.sectors == sum, number of opened disks == number of data-bearing extents declared, "
    "per-extent sector offsets. Non-trivial = >= 2 extents of >= 2 kinds and a request straddling an extent boundary."
)
RULE += ' Round 10: flat extents that begin like a sparse extent or a descriptor; FLAT lines with a start offset behind other data; ZERO lines with a sector count; content flavours.'
ASSUMPTIONS = [
    "ZERO / VMFSRDM / VMFSRAW extent types are not generated (the statement lists FLAT, VMFS, SPARSE, VMFSSPARSE, SESPARSE)",
    "FLAT extents use start offset 0",
]

# incl. the characters str.splitlines() treats as line boundaries although a descriptor line only ends at "\n"
NAME_ALPHABET = "abcXYZ019 -_.()'`:#=;,+&ëä中\U0001F98A\"\u2028\u2029\x85\x0b\x0c\x1c\x1e"
BASE_GUID = "1a2b3c4d-0000-4000-8000-00000000000a"
TYPES = {"flat": ["FLAT", "VMFS"], "kdmv": ["SPARSE"], "cowd": ["VMFSSPARSE"], "sesparse": ["SESPARSE"]}


from hv import sparse as _sp  # noqa: E402


def budget(tier):
    return 6000 if tier == "quick" else 20000


@st.composite
def file_name(draw, idx):
    if draw(st.integers(0, 2)) == 0:
        return f"disk-s{idx:03d}.vmdk"
    body = draw(st.text(alphabet=NAME_ALPHABET, min_size=1, max_size=24))
    if draw(st.integers(0, 3)) == 0:
        # valid Unicode that is not in composed normal form (names written by macOS hosts, compatibility code points): the file
        # is stored under exactly this name
        body += draw(st.sampled_from(["e\u0301", "A\u030a", "\u212b", "\u1112\u1161\u11ab", "o\u0308\u0323"]))
    body = body.strip(' "') or "x"
    body = body.replace("/", "_")
    return f"{idx}{body}.vmdk"


@st.composite
def vmdk_desc(draw, tier):
    n = draw(st.integers(1, 6))
    exts = []
    for j in range(n):
        kind = draw(st.sampled_from(["flat", "kdmv", "cowd", "sesparse", "kdmv"]))
        cap = draw(st.one_of(st.integers(1, 400), st.sampled_from([16, 17, 31, 128, 2048, 4096 + 8])))
        e = draw(c02.extent_spec(tier, kind=kind, layer=j, capacity=cap, allow_compressed=True))
        e.pop("descriptor", None)
        if kind == "flat" and draw(st.integers(0, 3)) == 0:
            # a flat extent holds guest data verbatim, and the descriptor says so: data that begins like a sparse extent (a nested
            # .vmdk written to a raw disk) is still data
            e["head"] = draw(st.sampled_from(["KDMV\x01\x00\x00\x00\x03\x00\x00\x00", "KDMV", "COWD\x01\x00\x00\x00", "\xbe\xba\xfe\xca\x00\x00\x00\x00\x02\x00\x00\x00\x01\x00\x00\x00",
                                              "# Disk DescriptorFile\nversion=1\n"]))
        typ = draw(st.sampled_from(TYPES[kind]))
        exts.append({
            "spec": e, "type": typ, "name": draw(file_name(j)),
            "access": draw(st.sampled_from(["RW", "RW", "RDONLY", "NOACCESS"])),
            # the last number of a FLAT line is where the extent's data starts inside its file, in sectors (several extents may share a file)
            "offset": draw(st.sampled_from([0, 0, 0, 1, 8, 2048])) if typ == "FLAT" and draw(st.booleans()) else None,
            "flat_extra": draw(st.sampled_from([0, 0, 512, 100])) if kind == "flat" else 0,
        })
    if draw(st.integers(0, 3)) == 0:
        # a ZERO extent line (no file: the range reads as zeros) of 1..300 sectors somewhere among the others
        exts.insert(draw(st.integers(0, len(exts))), {"spec": {"kind": "zero", "capacity": draw(st.sampled_from([1, 7, 16, 17, 300])), "layer": 0},
                                                      "type": "ZERO", "name": f"unused{len(exts)}", "access": "RW", "offset": None, "flat_extra": 0})
    names = set()
    for e in exts:  # unique names
        while e["name"] in names:
            e["name"] = "u" + e["name"]
        names.add(e["name"])
    return {"mode": "vmdk-desc", "extents": exts, "crlf": draw(st.booleans()), "comments": draw(st.booleans()),
            "zero_lines": draw(st.lists(st.integers(0, 6), max_size=2, unique=True)) if draw(st.integers(0, 3)) == 0 else [],
            "by": draw(st.sampled_from(["path", "path", "str", "fh-named"])),
            "ddb": draw(st.sampled_from([{}, {"ddb.adapterType": "lsilogic", "ddb.geometry.cylinders": "1024"}]))}


@st.composite
def vmdk_list(draw, tier):
    n = draw(st.integers(2, 5))
    exts = []
    for j in range(n):
        kind = draw(st.sampled_from(["flat", "kdmv", "cowd", "sesparse"]))
        cap = draw(st.one_of(st.integers(1, 400), st.sampled_from([16, 17, 128, 2048])))
        e = draw(c02.extent_spec(tier, kind=kind, layer=j, capacity=cap, allow_compressed=True))
        e.pop("descriptor", None)
        exts.append({"spec": e})
    # the list holds open handles, or paths (Path / str / both) to files on disk; a list of paths is used for two successive opens
    spec = {"mode": "vmdk-list", "extents": exts, "list_by": draw(st.sampled_from(["handles", "handles", "paths", "strs", "mixed"]))}
    if spec["list_by"] == "handles" and draw(st.integers(0, 2)) == 0:
        # the same handles serve two readers whose requests alternate, or one handle is listed twice (the extent repeats)
        spec["share"] = draw(st.sampled_from(["two-readers", "dup-in-list"]))
        flat = [j for j, e in enumerate(exts) if e["spec"]["kind"] == "flat"]  # (a sparse extent is recognised at the handle's position)
        if spec["share"] == "dup-in-list" and not flat:
            spec["share"] = "two-readers"
        if spec["share"] == "dup-in-list":
            spec["dup"] = draw(st.sampled_from(flat))
    return spec


@st.composite
def hdd_storages(draw, tier):
    n = draw(st.integers(1, 6))
    sts = []
    for j in range(n):
        if draw(st.integers(0, 3)) == 0:
            sts.append({"type": "Plain", "size_sectors": draw(st.integers(1, 3000)), "holes": draw(st.lists(st.integers(0, 2), max_size=1))})
        else:
            hs, _ = draw(c06.hds_spec(tier, layer=j))
            if hs["size_sectors"] > 1 << 22:
                hs["size_sectors"] = 1 << 22
            sts.append({"type": "Compressed", "hds": hs, "size_sectors": hs["size_sectors"]})
    order = draw(st.permutations(list(range(n))))
    spec = {"mode": "hdd", "storages": sts, "order": list(order)}
    if draw(st.integers(0, 2)) == 0:
        # one snapshot on top: every storage has a second (expanding) image; the <Image> elements of a storage come in either order
        for j, s_ in enumerate(sts):
            cs = draw(st.sampled_from([8, 128, 2048])) if s_["type"] == "Plain" else s_["hds"]["cluster_sectors"]
            ncl = -(-s_["size_sectors"] // cs)
            s_["delta"] = draw(c06.hds_spec(tier, layer=32 + j, geometry=(cs, ncl, s_["size_sectors"]), version=2))[0]
            s_["delta_first"] = draw(st.booleans())
        spec["snapshot"] = True
    return spec


@st.composite
def strategy_(draw, tier):
    spec = draw(st.one_of(vmdk_desc(tier), vmdk_desc(tier), vmdk_list(tier), hdd_storages(tier)))
    sizes = [(e["spec"]["capacity"] if "spec" in e else e["size_sectors"]) * 512 for e in spec.get("extents", spec.get("storages"))]
    bounds = []
    acc = 0
    for s in sizes:
        acc += s
        bounds.append(acc)
    total = acc
    spec["requests"] = draw(strat.requests(total, 512 * 16, count=7, points=bounds, whole_limit=3 << 20))
    # always one request straddling each of the first boundaries by one sector
    for b in bounds[:-1][:3]:
        spec["requests"].append([max(0, b - 512), 1024])
    spec["requests"].append([max(0, total - 700), 2000])
    spec["flavours"] = draw(st.booleans())
    return spec


def strategy(tier):
    return strategy_(tier)


def scratch_dir():
    root = os.environ.get("VERIF_SCRATCH") or ("/dev/shm" if os.path.isdir("/dev/shm") else None)
    from hv.core import case_dir

    return case_dir("c10", root)


def straddles(spec, bounds):
    for off, n in spec["requests"]:
        for b in bounds[:-1]:
            if off < b < off + n:
                return True
    return False


def check(spec) -> Outcome:
    out = Outcome()
    mode = spec["mode"]
    out.cls(mode)
    if mode == "hdd":
        return check_hdd(spec, out)
    from dissect.hypervisor.disk.vmdk import VMDK

    exts = spec["extents"]
    if spec.get("share") == "dup-in-list":
        exts = exts + [exts[spec["dup"]]]
    total = sum(e["spec"]["capacity"] for e in exts) * 512
    lay = Extents(total)
    built = []
    pos = 0
    bounds = []
    for j, e in enumerate(exts):
        if spec.get("share") == "dup-in-list" and j == len(exts) - 1:
            fh, elay = built[spec["dup"]], dup_lay  # the very same handle once more
        elif e["spec"]["kind"] == "zero":
            fh, elay = None, Extents(e["spec"]["capacity"] * 512)
            elay.put(0, _sp.Zero(e["spec"]["capacity"] * 512))
        else:
            fh, elay, meta = bvmdk.build(e["spec"])
            if j == spec.get("dup"):
                dup_lay = elay
        copy_shifted(elay, lay, pos, limit=e["spec"]["capacity"] * 512)
        built.append(fh)
        pos += e["spec"]["capacity"] * 512
        bounds.append(pos)
    kinds = {e["spec"]["kind"] for e in exts}
    out.nontrivial = len(exts) >= 2 and len(kinds) >= 2 and straddles(spec, bounds)
    out.cls(f"extents={len(exts)}")
    for k in kinds:
        out.cls("kind-" + k)

    if mode == "vmdk-list" and spec.get("list_by", "handles") != "handles":
        d = scratch_dir()
        vs = []
        try:
            args = []
            for j, fh in enumerate(built):
                pth = os.path.join(d, f"extent-{j}.vmdk")
                fh.write_to(pth)
                by = spec["list_by"]
                args.append(Path(pth) if by == "paths" or (by == "mixed" and j % 2 == 0) else pth)
            out.cls("list-by-" + spec["list_by"])
            for attempt in ("vmdk-list", "vmdk-list-again"):
                v, err = lib(VMDK, args)
                if err:
                    out.fail(err.sig(attempt + "-open"), f"VMDK([paths]) raised {err.describe()}")
                    break
                vs.append(v)
                _vmdk_oracle(out, v, spec, lay, total, exts, attempt)
        finally:
            for v in vs:
                for dsk in getattr(v, "disks", []):
                    try:
                        dsk.fh.close()
                    except Exception:  # noqa: BLE001
                        pass
            shutil.rmtree(d, ignore_errors=True)
        return out
    if mode == "vmdk-list":
        v, err = lib(VMDK, built)
        if err:
            out.fail(err.sig("vmdk-list-open"), f"VMDK([...]) raised {err.describe()}")
            return out
        if spec.get("share"):
            out.cls("shared-handles-" + spec["share"])
            other = v
            if spec["share"] == "two-readers":
                for fh in built:
                    fh.seek(0)  # extents are recognised at the position a handle is handed over at
                other, err = lib(VMDK, built)
                if err:
                    out.fail(err.sig("vmdk-list-open-second"), f"second VMDK([...]) over the same handles raised {err.describe()}")
                    return out
            # requests that alternate between the two users of a handle, each continuing where its last one ended
            nsec = total // 512
            acc = 0
            for j, e in enumerate(exts):
                cap = e["spec"]["capacity"]
                far = (bounds[-2] // 512 if spec["share"] == "dup-in-list" else (acc + cap // 2) % nsec) if nsec > 1 else 0
                if spec["share"] == "two-readers" or j == spec.get("dup"):
                    k = max(1, min(2, cap // 2))
                    for rd, s0, c0 in ((v, acc, k), (other, min(far + 1, nsec - 1), 1), (v, acc + k, max(1, min(k, cap - k)))):
                        c0 = min(c0, nsec - s0)
                        if c0 <= 0:
                            continue
                        got, err = lib(rd.read_sectors, s0, c0)
                        if err:
                            out.fail(err.sig("vmdk-list-shared"), f"read_sectors({s0},{c0}) raised {err.describe()}")
                        elif got != lay.read_at(s0 * 512, c0 * 512):
                            out.fail("mismatch|vmdk-list-shared", f"read_sectors({s0},{c0}) differs from the model when two users of a handle alternate")
                acc += cap
            if out.failures:
                return out
        _vmdk_oracle(out, v, spec, lay, total, exts, "vmdk-list")
        return out

    d = scratch_dir()
    try:
        lines = []
        for e, fh in zip(exts, built):
            if fh is None:
                lines.append({"access": e["access"], "sectors": e["spec"]["capacity"], "type": "ZERO", "file": None, "offset": None})
                continue
            if e.get("flat_extra"):
                fh.grow(fh.size + e["flat_extra"])
            if e.get("offset"):
                shifted = _sp.SparseFile()
                shifted.put(0, _sp.Pat(0xDEC0 + len(lines), e["offset"] * 512))  # other data in front of the extent's own
                copy_shifted(fh, shifted, e["offset"] * 512)
                shifted.grow(e["offset"] * 512 + fh.size)
                fh = shifted
                out.cls("flat-start-offset")
            fh.write_to(os.path.join(d, e["name"]))
            lines.append({"access": e["access"], "sectors": e["spec"]["capacity"], "type": e["type"], "file": e["name"], "offset": e["offset"]})
        for pos in sorted(spec.get("zero_lines", []), reverse=True):
            # zero-length ZERO extents (no file name) between the data-bearing ones
            lines.insert(min(pos, len(lines)), {"access": "RW", "sectors": 0, "type": "ZERO", "file": None, "offset": None})
        text = bvmdk.descriptor_text({"extents": lines, "crlf": spec["crlf"], "comments": spec["comments"], "ddb": spec["ddb"],
                                      "create_type": "twoGbMaxExtentSparse"})
        p = os.path.join(d, "the disk.vmdk")
        with open(p, "w", newline="", encoding="utf-8") as f:
            f.write(text)
        opened_fh = None
        if spec["by"] == "path":
            v, err = lib(VMDK, Path(p))
        elif spec["by"] == "str":
            v, err = lib(VMDK, p)
        else:
            opened_fh = open(p, "rb")
            v, err = lib(VMDK, opened_fh)
        try:
            if err:
                out.fail(err.sig("vmdk-desc-open"), f"VMDK(descriptor) raised {err.describe()}")
                return out
            _vmdk_oracle(out, v, spec, lay, total, exts, "vmdk-desc")
            dsc = v.descriptor
            if dsc is None:
                out.fail("mismatch|vmdk-desc-descriptor", "descriptor not exposed")
            else:
                if dsc.sectors != total // 512:
                    out.fail("mismatch|vmdk-desc-sectors", f"descriptor.sectors {dsc.sectors} != {total // 512}")
                got = [(x.access_mode, x.sectors, x.type, x.filename) for x in dsc.extents if x.type != "ZERO"]
                exp = [(e["access"], e["spec"]["capacity"], e["type"], e["name"]) for e in exts if e["type"] != "ZERO"]
                if got != exp:
                    out.fail("mismatch|vmdk-desc-extents", f"extent lines {got} != {exp}")
        finally:
            if opened_fh:
                opened_fh.close()
            for dsk in getattr(v, "disks", []) if v is not None else []:
                try:
                    dsk.fh.close()
                except Exception:  # noqa: BLE001
                    pass
    finally:
        shutil.rmtree(d, ignore_errors=True)
    return out


def _vmdk_oracle(out, v, spec, lay, total, exts, tag):
    if v.size != total:
        out.fail(f"mismatch|{tag}-size", f"size {v.size} != {total} (sum of extents)")
    if any(e["spec"]["kind"] == "zero" for e in exts):
        pass  # how a file-less ZERO range is represented among v.disks is the reader's business: size and content decide
    elif len(v.disks) != len(exts):
        out.fail(f"mismatch|{tag}-count", f"{len(v.disks)} disks opened for {len(exts)} data-bearing extents")
    else:
        acc = 0
        for dsk, e in zip(v.disks, exts):
            if dsk.sector_offset != acc or dsk.sector_count != e["spec"]["capacity"]:
                out.fail(f"mismatch|{tag}-offsets", f"extent at sector {dsk.sector_offset}+{dsk.sector_count}, expected {acc}+{e['spec']['capacity']}")
                break
            acc += e["spec"]["capacity"]
    if out.failures:
        return
    check_reads(out, v, lay, spec["requests"], tag)
    for off, n in spec["requests"][-4:]:
        s, c = off // 512, max(1, min(n, 1 << 20) // 512)
        c = min(c, total // 512 - s)
        if c <= 0:
            continue
        got, err = lib(v.read_sectors, s, c)
        if err:
            out.fail(err.sig(tag + "-sectors"), f"read_sectors({s},{c}) raised {err.describe()}")
        elif got != lay.read_at(s * 512, c * 512):
            out.fail(f"mismatch|{tag}-sectors", f"read_sectors({s},{c}) differs from model")


def check_hdd(spec, out):
    from dissect.hypervisor.disk.hdd import HDD

    sts = spec["storages"]
    total = sum(s["size_sectors"] for s in sts) * 512
    lay = Extents(total)
    top_lay = Extents(total)
    d = scratch_dir()
    try:
        root = os.path.join(d, "x.hdd")
        os.mkdir(root)
        start = 0
        desc_storages = []
        bounds = []
        for i, s in enumerate(sts):
            nbytes = s["size_sectors"] * 512
            if s["type"] == "Plain":
                fh = SparseFile(nbytes)
                for c in range((nbytes + (1 << 20) - 1) >> 20):
                    if c in s["holes"]:
                        continue
                    p = Pat(0x10A000 + i * 64 + c, min(1 << 20, nbytes - (c << 20)))
                    fh.put(c << 20, p)
                    lay.put(start * 512 + (c << 20), p)
            else:
                hs = dict(s["hds"], size_sectors=s["size_sectors"])
                fh, play, _ = bhdd.build(hs)
                copy_shifted(play, lay, start * 512, limit=nbytes)
            base_guid = BASE_GUID if spec.get("snapshot") else bhdd.DEFAULT_TOP
            fname = f"x.hdd.{i}.{{{base_guid}}}.hds"
            fh.write_to(os.path.join(root, fname))
            images = [{"guid": base_guid, "type": s["type"], "file": fname}]
            if spec.get("snapshot"):
                dfh, dlay, _ = bhdd.build(dict(s["delta"], size_sectors=s["size_sectors"]))
                dname = f"x.hdd.{i}.{{{bhdd.DEFAULT_TOP}}}.hds"
                dfh.write_to(os.path.join(root, dname))
                copy_shifted(dlay, top_lay, start * 512, limit=nbytes)
                images.append({"guid": bhdd.DEFAULT_TOP, "type": "Compressed", "file": dname})
                if s["delta_first"]:
                    images.reverse()
            desc_storages.append({"start": start, "end": start + s["size_sectors"], "images": images})
            start += s["size_sectors"]
            bounds.append(start * 512)
        desc = {"disk_size": total // 512, "storages": desc_storages, "shots": [{"guid": bhdd.DEFAULT_TOP, "parent": bhdd.NULL_GUID}],
                "shuffle": spec["order"]}
        if spec.get("snapshot"):
            desc["shots"] = [{"guid": BASE_GUID, "parent": bhdd.NULL_GUID}, {"guid": bhdd.DEFAULT_TOP, "parent": BASE_GUID}]
            out.cls("hdd-storages-with-snapshot")
            from hv.sparse import Overlay

            lay = Overlay([top_lay, lay], total)
        with open(os.path.join(root, "DiskDescriptor.xml"), "w") as f:
            f.write(bhdd.descriptor_xml(desc))
        kinds = {s["type"] for s in sts}
        out.nontrivial = len(sts) >= 2 and len(kinds) >= 2 and straddles(spec, bounds)
        out.cls(f"storages={len(sts)}")
        stream, err = lib(lambda: HDD(Path(root)).open())
        if err:
            out.fail(err.sig("hdd-storages-open"), f"HDD().open() raised {err.describe()}")
            return out
        try:
            if stream.size != total:
                out.fail("mismatch|hdd-storages-size", f"size {stream.size} != {total}")
            check_reads(out, stream, lay, spec["requests"], "hdd-storages")
        finally:
            for _, s in getattr(stream, "streams", []):
                f = getattr(s, "fh", s)
                try:
                    f.close()
                except Exception:  # noqa: BLE001
                    pass
    finally:
        shutil.rmtree(d, ignore_errors=True)
    return out
