"""C12 — Foreign or unsupported inputs are refused, not misread."""
from __future__ import annotations

import functools
import io
import os
import shutil
import struct
import tempfile
from pathlib import Path

from hypothesis import strategies as st

from hv.builders import envelope as benv
from hv.builders import hdd as bhdd
from hv.builders import hyperv as bhv
from hv.builders import qcow2 as bq
from hv.builders import vdi as bvdi
from hv.builders import vhdx as bvhdx
from hv.builders import vmdk as bvmdk
from hv.builders import vmxcrypt as bvx
from hv.core import Outcome, lib

ID = "C12"
TECHNIQUE = ("gate table: exhaustive single-bit flips of every validated magic/signature + Hypothesis-sampled out-of-set values for "
             "version / geometry / feature fields applied to valid builder output; must-raise oracle with a must-open dual control")
RULE = (
    "One gate table; each row = (valid base artefact from the independent builders, field, accepted set, entry point). For every "
    "magic / signature (QCOW2, VHDX file identifier / current header / both region tables / metadata table, VDI, HDS v1+v2, "
    "VMDK KDMV / COWD / SE-sparse via SparseDisk and via a descriptor SPARSE extent, Hyper-V header / replay log / object "
    "table / key table also behind a nested object table, envelope magic) every single-bit flip is enumerated; version numbers, cluster_bits, crypt_method, "
    "compression type, AEAD footer version, feature bits (data file without data file, extended L2 with small clusters), "
    "missing VHDX regions, parent locator type, missing parents/backing files, Parallels image Type, .hdd directory without "
    "descriptor, envelope cipher name / missing required attributes, keystore mode, key-safe identifier / locator kinds / "
    "cipher / KDF / MAC names are sampled from outside the accepted set (boundaries forced; names also as near misses of the accepted "
    "tokens: substrings, case variants, doubled, prefixed / suffixed); missing backing / data file also in combination with the other.  Oracle: opening the mutated input "
    "raises (any exception) — for key-safe gates unlock raises and leaves attr unchanged — while the unmodified base opens. "
    "Non-trivial = base opened and the value is outside the accepted set; distinct = (gate, value)."
    ' Unknown locator kinds also as a second member of a list next to a usable pair; differencing VHDX handed over as a nameless file object while the parent exists; keystore modes that continue behind a line-boundary-like character with an accepted assignment.'
)
RULE += ' Round 10: zstd named with the feature bit clear; blanked structures (whole region 0x00 / 0xFF); parent_linkage in the missing-parent gate.'
ASSUMPTIONS = [
    "QCOW2 compression types >= 2: the accepted set per the reader is {zlib, zstd-if-available}; the oracle is 'open raises or the "
    "first read of a compressed cluster raises, never returns bytes'",
    "unknown QCOW2 incompatible-feature bits are not a gate of the statement and are not generated",
]

EXHAUSTIVE_NOTE = "every single-bit flip of every magic / signature and of every version / geometry field, plus forced boundary values"


def budget(tier):
    return 20000 if tier == "quick" else 100000


def scratch_dir():
    root = os.environ.get("VERIF_SCRATCH") or ("/dev/shm" if os.path.isdir("/dev/shm") else None)
    from hv.core import case_dir

    return case_dir("c12", root)


# ------------------------------------------------------------------------------------------- bases (cached bytes)
@functools.lru_cache(maxsize=None)
def base_qcow2(version=3, cb=16, ext=False, comp=True):
    spec = {"version": version, "cluster_bits": cb, "size": 8 << cb, "header_length": 112, "ext_l2": ext, "data_file": False,
            "clusters": [[0, "n", 0, [0xFFFFFFFF, 0] if ext else None], [2, "c" if comp and not ext else "n", 1, 0 if comp and not ext else ([0xFFFF, 0] if ext else None)]],
            "l2_interleave": False, "l2_slots": {}, "meta_order": ["l1", "refcount", "snap", "l2"], "far_base": 0, "copied": True,
            "comp_shift": 0, "cgaps": [0], "comp_far": 0, "layer": 0}
    fh, dfh, bfh, layers, meta = bq.build(spec)
    return fh.materialize()


@functools.lru_cache(maxsize=None)
def base_qcow2_backing(data_file=False, named=True):
    spec = {"version": 3, "cluster_bits": 12, "size": 8 << 12, "header_length": 112, "ext_l2": False, "data_file": data_file,
            "data_file_named": named,
            "clusters": [[0, "n", 0, None]], "l2_interleave": False, "l2_slots": {}, "meta_order": ["l1", "refcount", "snap", "l2"],
            "far_base": 0, "copied": True, "comp_shift": 0, "cgaps": [0], "comp_far": 0, "layer": 0,
            "backing": {"name": "base.img", "format": "raw", "length": 8 << 12}}
    fh, dfh, bfh, layers, meta = bq.build(spec)
    return fh.materialize()


VHDX_SPEC = {"block_size": 1 << 20, "sector_size": 512, "size": 3 << 20, "seq": [1, 2], "regions": {"metadata": 2, "bat": 3},
             "region_order": "mb", "meta_order": [0, 1, 2, 3, 4], "meta_gap": 0, "blocks": [[0, 6, 4]], "layer": 0}


@functools.lru_cache(maxsize=None)
def base_vhdx():
    fh, lay, meta = bvhdx.build(VHDX_SPEC)
    return fh.materialize()


@functools.lru_cache(maxsize=None)
def base_vdi():
    fh, lay, meta = bvdi.build({"block_size": 4096, "nblocks": 3, "disk_size": 3 * 4096, "blocks_offset": 512, "data_offset": 1024,
                                "alloc": [[0, 0], [2, 1]], "zero": [], "layer": 0})
    return fh.materialize()


@functools.lru_cache(maxsize=None)
def base_hds(version):
    fh, lay, meta = bhdd.build({"version": version, "cluster_sectors": 8, "size_sectors": 24, "bat_entries": 3, "first_block_offset": 8,
                                "in_use": False, "alloc": [[0, 8], [2, 16]], "layer": 0})
    return fh.materialize()


@functools.lru_cache(maxsize=None)
def base_vmdk(kind):
    spec = {"kind": kind, "capacity": 64, "grain": 8, "grains": [[0, "a", 0], [3, "a", 1]], "present_gts": [], "pad": 0, "layer": 0}
    if kind == "kdmv":
        spec.update(gtes=512, compressed=False, zero_flag=False, redundant=False, meta_first=True, version=1)
    if kind == "sesparse":
        spec.update(gt_sectors=64, gd_slack=0, index_base=0)
    fh, lay, meta = bvmdk.build(spec)
    return fh.materialize()


@functools.lru_cache(maxsize=None)
def base_vmdk_footer():
    """A stream-optimised extent whose grain directory is named by the footer at the end of the file (front gd_offset = -1)."""
    spec = {"kind": "kdmv", "capacity": 64, "grain": 8, "grains": [[0, "a", 0], [3, "a", 1]], "present_gts": [], "pad": 0, "layer": 0,
            "gtes": 512, "compressed": True, "footer": True, "embedded_lba": True, "version": 3, "zero_flag": False, "redundant": False}
    data = bvmdk.build(spec)[0].materialize()
    assert data[-1024:-1020] == b"KDMV" and struct.unpack_from("<Q", data, 56)[0] == 0xFFFFFFFFFFFFFFFF
    return data


HV_SPEC = {"entries": [{"id": 0, "parent": None, "key": "configuration", "type": "node", "value": None, "table": 1, "fo": False},
                       {"id": 1, "parent": 0, "key": "version", "type": "int", "value": 5, "table": 1, "fo": False},
                       {"id": 2, "parent": 0, "key": "name", "type": "string", "value": "vm", "table": 2, "fo": False}],
           "tables": {"1": {"seq": 3}, "2": {"seq": 4}}, "headers": {"seq": [7, 3]}, "object_table": {}}


@functools.lru_cache(maxsize=None)
def base_hyperv():
    data, meta = bhv.build(HV_SPEC)
    return data, meta["replay_log_offset"]


@functools.lru_cache(maxsize=None)
def base_hyperv_chained():
    """Key table 1 (0x3000) is listed in the first object table, key table 2 (0x4000) only in a nested one (0x7000)."""
    data, _meta = bhv.build(dict(HV_SPEC, object_table={"chain_at": 0, "chain_depth": 2}))
    assert data[0x7000:0x7004] == struct.pack("<I", 0x01110001) and data[0x4000:0x4002] == b"\x02\x00"
    return data


@functools.lru_cache(maxsize=None)
def base_hyperv_stale():
    """Two key tables with index 1: the active one (sequence 3, at 0x3000) listed first, a stale one (sequence 1, at 0x4000) after it."""
    data, _meta = bhv.build(dict(HV_SPEC, tables={"1": {"seq": 3, "stale": {"seq": 1}, "stale_first": False}, "2": {"seq": 4}}))
    assert data[0x3000:0x3006] == bytes.fromhex("020001000300") and data[0x4000:0x4006] == bytes.fromhex("020001000100")
    return data


ENV_SPEC = {"payload_len": 100, "payload_key": 5, "padding": 3, "key": bytes(range(32)).hex(), "iv": bytes(range(12)).hex(),
            "attrs": [[benv.T_BYTES, 0, "vmware.iv", "@iv"], [benv.T_STRING, 0, "vmware.keyInfo", "7e62cec5-6aef-4d7e-838b-cae32eefd251"],
                      [benv.T_STRING, 0, "vmware.cipherName", "AES-256-GCM"], [benv.T_BYTES, 0, "vmware.keyHash", "@keyhash"]], "aad": None}


@functools.lru_cache(maxsize=None)
def base_envelope():
    data, payload, aad, ranges = benv.build(ENV_SPEC)
    return data


VMX_SPEC = {"outer": [["displayName", "vm"]], "inner": [["guestOS", "other"], ["memsize", "512"]],
            "pairs": [{"passphrase": "secret", "cipher": "AES-256", "mac": "HMAC-SHA-1", "kdf": "PBKDF2-HMAC-SHA-1", "rounds": 5,
                       "salt": bytes(range(16)).hex(), "iv": bytes(range(16)).hex(), "id": "id"}],
            "correct": 0, "data_cipher": "AES-256", "data_key": bytes(range(32)).hex(), "data_iv": bytes(range(16, 32)).hex()}


# ------------------------------------------------------------------------------------------- openers
def open_qcow2(data, **kw):
    from dissect.hypervisor.disk.qcow2 import QCow2

    return QCow2(io.BytesIO(data), **kw)


def open_qcow2_read_compressed(data):
    q = open_qcow2(data)
    q.seek(2 << 16)
    got = q.read(512)
    if got:
        return got
    raise ValueError("no data")  # returning nothing counts as refused


def open_vhdx(data):
    from dissect.hypervisor.disk.vhdx import VHDX

    return VHDX(io.BytesIO(data))


def open_vdi(data):
    from dissect.hypervisor.disk.vdi import VDI

    return VDI(io.BytesIO(data))


def open_hds(data):
    from dissect.hypervisor.disk.hdd import HDS

    return HDS(io.BytesIO(data))


def open_sparse(data):
    from dissect.hypervisor.disk.vmdk import SparseDisk

    return SparseDisk(io.BytesIO(data))


def open_vmdk_fh(data):
    from dissect.hypervisor.disk.vmdk import VMDK

    return VMDK(io.BytesIO(data))


def open_envelope_noverify(data):
    from dissect.hypervisor.util.envelope import Envelope

    return Envelope(io.BytesIO(data), verify=False)


def open_vmdk_descriptor(data):
    from dissect.hypervisor.disk.vmdk import VMDK

    d = scratch_dir()
    try:
        with open(os.path.join(d, "e.vmdk"), "wb") as f:
            f.write(data)
        with open(os.path.join(d, "d.vmdk"), "w") as f:
            f.write(bvmdk.descriptor_text({"extents": [{"sectors": 64, "type": "SPARSE", "file": "e.vmdk"}]}))
        v = VMDK(Path(os.path.join(d, "d.vmdk")))
        for dsk in v.disks:
            dsk.fh.close()
        return v
    finally:
        shutil.rmtree(d, ignore_errors=True)


def open_hyperv(data):
    from dissect.hypervisor.descriptor.hyperv import HyperVFile

    return HyperVFile(io.BytesIO(data))


def open_envelope(data):
    from dissect.hypervisor.util.envelope import Envelope

    return Envelope(io.BytesIO(data))


def patch(data: bytes, off: int, raw: bytes) -> bytes:
    return data[:off] + raw + data[off + len(raw):]


# ------------------------------------------------------------------------------------------- byte-field gates
# name -> (base bytes fn, offset, width, endianness, accepted predicate, opener)
def byte_gates():
    hv, replay = base_hyperv()
    g = {
        "qcow2.magic": (lambda: base_qcow2(), 0, 4, ">", lambda v: v == bq.MAGIC, open_qcow2),
        "qcow2.version": (lambda: base_qcow2(), 4, 4, ">", lambda v: v in (2, 3), open_qcow2),
        "qcow2.cluster_bits": (lambda: base_qcow2(), 20, 4, ">", lambda v: 9 <= v <= 21, open_qcow2),
        "qcow2.crypt_method": (lambda: base_qcow2(), 32, 4, ">", lambda v: v == 0, open_qcow2),
        "qcow2.compression_type=zstd": (lambda: patch(base_qcow2(), 72, struct.pack(">Q", 1 << 3)), 104, 1, ">", lambda v: v != 1, open_qcow2),
        # the same byte when the header's compression-type feature bit is clear (the field has to be zero then): zstd is still not zlib
        "qcow2.compression_type=zstd.bit-clear": (lambda: base_qcow2(), 104, 1, ">", lambda v: v != 1, open_qcow2),
        "qcow2.compression_type>=2": (lambda: patch(base_qcow2(), 72, struct.pack(">Q", 1 << 3)), 104, 1, ">", lambda v: v in (0, 1), open_qcow2_read_compressed),
        "vhdx.file_identifier": (base_vhdx, 0, 8, "<", lambda v: v == int.from_bytes(b"vhdxfile", "little"), open_vhdx),
        "vhdx.current_header": (base_vhdx, 2 * 65536, 4, "<", lambda v: v == int.from_bytes(b"head", "little"), open_vhdx),
        "vhdx.region_table_1": (base_vhdx, 3 * 65536, 4, "<", lambda v: v == int.from_bytes(b"regi", "little"), open_vhdx),
        "vhdx.region_table_2": (base_vhdx, 4 * 65536, 4, "<", lambda v: v == int.from_bytes(b"regi", "little"), open_vhdx),
        "vhdx.metadata_table": (base_vhdx, 2 << 20, 8, "<", lambda v: v == int.from_bytes(b"metadata", "little"), open_vhdx),
        "vdi.signature": (base_vdi, 64, 4, "<", lambda v: v == 0xBEDA107F, open_vdi),
        "hds.signature.v1": (lambda: base_hds(1), 0, 16, "<", lambda v: v in _HDS_SIGS, open_hds),
        "hds.signature.v2": (lambda: base_hds(2), 0, 16, "<", lambda v: v in _HDS_SIGS, open_hds),
        "vmdk.kdmv.magic": (lambda: base_vmdk("kdmv"), 0, 4, "<", lambda v: v in _VMDK_MAGICS, open_sparse),
        "vmdk.cowd.magic": (lambda: base_vmdk("cowd"), 0, 4, "<", lambda v: v in _VMDK_MAGICS, open_sparse),
        "vmdk.footer.magic": (base_vmdk_footer, len(base_vmdk_footer()) - 1024, 4, "<", lambda v: v in _VMDK_MAGICS, open_sparse),
        "vmdk.sesparse.magic": (lambda: base_vmdk("sesparse"), 0, 8, "<", lambda v: v == 0xCAFEBABE, open_sparse),
        "vmdk.sesparse.magic.vmdk": (lambda: base_vmdk("sesparse"), 0, 8, "<", lambda v: v == 0xCAFEBABE or (v & 0xFFFFFFFF) not in _VMDK_MAGICS, open_vmdk_fh),
        "vmdk.descriptor-extent.magic": (lambda: base_vmdk("kdmv"), 0, 4, "<", lambda v: v in _VMDK_MAGICS, open_vmdk_descriptor),
        "hyperv.header.signature": (lambda: hv, 0, 4, "<", lambda v: v == 0x01282014, open_hyperv),
        "hyperv.header.version": (lambda: hv, 10, 4, "<", lambda v: v == 0x400, open_hyperv),
        "hyperv.replay_log.signature": (lambda: hv, replay, 4, "<", lambda v: v == 0x01110003, open_hyperv),
        "hyperv.object_table.signature": (lambda: hv, 0x2000, 4, "<", lambda v: v == 0x01110001, open_hyperv),
        "hyperv.key_table.signature": (lambda: hv, 0x3000, 2, "<", lambda v: v == 2, open_hyperv),
        # the same gates for structures that are only reachable through a second, nested object table
        "hyperv.nested.object_table.signature": (base_hyperv_chained, 0x7000, 4, "<", lambda v: v == 0x01110001, open_hyperv),
        "hyperv.nested.key_table.signature": (base_hyperv_chained, 0x4000, 2, "<", lambda v: v == 2, open_hyperv),
        # ... and for a superseded key table (same index, lower sequence number) listed behind the active one
        "hyperv.stale.key_table.signature": (base_hyperv_stale, 0x4000, 2, "<", lambda v: v == 2, open_hyperv),
        "qcow2.v2.crypt_method": (lambda: base_qcow2(version=2), 32, 4, ">", lambda v: v == 0, open_qcow2),
        "envelope.magic": (base_envelope, 0, 21, "<", lambda v: v == int.from_bytes(b"DataTransformEnvelope", "little"), open_envelope),
        "envelope.version": (base_envelope, 508, 4, "<", lambda v: v == 2, open_envelope),
        "envelope.aead_footer.version": (base_envelope, len(base_envelope()) - 4, 4, "<", lambda v: v == 1, open_envelope),
        "envelope.magic.noverify": (base_envelope, 0, 21, "<", lambda v: v == int.from_bytes(b"DataTransformEnvelope", "little"), open_envelope_noverify),
        "envelope.version.noverify": (base_envelope, 508, 4, "<", lambda v: v == 2, open_envelope_noverify),
        "envelope.aead_footer.version.noverify": (base_envelope, len(base_envelope()) - 4, 4, "<", lambda v: v == 1, open_envelope_noverify),
    }
    return g


_HDS_SIGS = {int.from_bytes(bhdd.SIG_V1, "little"), int.from_bytes(bhdd.SIG_V2, "little")}
_VMDK_MAGICS = {int.from_bytes(b"KDMV", "little"), int.from_bytes(b"COWD", "little"), 0xCAFEBABE}
MAGIC_GATES = ["qcow2.magic", "vhdx.file_identifier", "vhdx.current_header", "vhdx.region_table_1", "vhdx.region_table_2",
               "vhdx.metadata_table", "vdi.signature", "hds.signature.v1", "hds.signature.v2", "vmdk.kdmv.magic", "vmdk.cowd.magic",
               "vmdk.sesparse.magic", "vmdk.sesparse.magic.vmdk", "vmdk.descriptor-extent.magic", "envelope.magic.noverify", "hyperv.header.signature", "hyperv.replay_log.signature",
               "hyperv.object_table.signature", "hyperv.key_table.signature", "envelope.magic", "hyperv.nested.object_table.signature",
               "hyperv.nested.key_table.signature", "vmdk.footer.magic", "hyperv.stale.key_table.signature"]
VALUE_GATES = ["qcow2.version", "qcow2.cluster_bits", "qcow2.crypt_method", "qcow2.v2.crypt_method", "qcow2.compression_type=zstd", "qcow2.compression_type=zstd.bit-clear", "qcow2.compression_type>=2",
               "hyperv.header.version", "envelope.version", "envelope.aead_footer.version", "envelope.version.noverify",
               "envelope.aead_footer.version.noverify"]
SEMANTIC_GATES = ["qcow2.data_file_bit", "qcow2.extl2_small_clusters", "qcow2.backing_without_object", "qcow2.data_file_without_object", "vhdx.missing_region",
                  "vhdx.locator_type", "vhdx.parent_missing", "hdd.image_type", "hdd.no_descriptor", "envelope.cipher_name",
                  "envelope.missing_attribute", "keystore.mode", "keysafe.identifier", "keysafe.locator_kind", "keysafe.names", "blanked_structure", "vhdx.unknown_required_metadata"]


def exhaustive(tier):
    gates = byte_gates()
    for name in MAGIC_GATES + VALUE_GATES:
        width = gates[name][2]
        for bit in range(width * 8):
            yield {"gate": name, "mode": "bitflip", "bit": bit}
    # forced boundary values of every version / geometry / feature field
    for name in VALUE_GATES:
        base_fn, off, width, endian, accepted, opener = gates[name]
        cur = int.from_bytes(base_fn()[off : off + width], "big" if endian == ">" else "little")
        top = (1 << (8 * width)) - 1
        for v in sorted({0, 1, 2, 3, 4, 5, 8, 9, 21, 22, cur + 1, cur - 1, cur + 0x100, cur - 0x100, cur ^ 0xFF, cur << 8, cur >> 8, top, top - 1}):
            if 0 <= v <= top:
                yield {"gate": name, "mode": "value", "value": v}


ACCEPTED_TOKENS = {"keystore.mode": ["NONE"], "envelope.cipher_name": ["AES-256-GCM"], "hdd.image_type": ["Compressed", "Plain"],
                   "keysafe.identifier": ["vmware:key"], "keysafe.names": ["AES-256", "HMAC-SHA-1", "PBKDF2-HMAC-SHA-1"],
                   "keysafe.locator_kind": ["phrase", "pair", "list"]}


def near_names(token: str) -> list[str]:
    """Strings a sloppy comparison (substring, prefix, case-insensitive, stripped) would take for `token`."""
    out = {token.lower(), token.upper(), token.title(), token + token, token + "X", "X" + token, token[:-1], token[1:], token + "\0", token[::-1]}
    if len(token) <= 8:
        out |= {token[i:j] for i in range(len(token)) for j in range(i + 1, len(token) + 1)}
    else:
        out |= {token[:k] for k in (1, 3, len(token) // 2)} | {token[-k:] for k in (1, 3, len(token) // 2)}
    out.discard(token)
    out.discard("")
    return sorted(out)


@st.composite
def strategy_(draw, tier):
    if draw(st.integers(0, 2)) == 0:
        name = draw(st.sampled_from(SEMANTIC_GATES))
        if name in ACCEPTED_TOKENS and draw(st.booleans()):
            tok = draw(st.sampled_from(ACCEPTED_TOKENS[name]))
            return {"gate": name, "mode": "semantic", "n": draw(st.integers(0, 1 << 32)),
                    "text": draw(st.sampled_from(near_names(tok))), "name": draw(st.sampled_from(near_names(tok)))}
        return {"gate": name, "mode": "semantic", "n": draw(st.integers(0, 1 << 32)),
                "text": draw(st.sampled_from(["rawkey", "ldap", "script", "role", "fqid", "phrases", "Pair", "LIST", "", "x"])),
                "name": draw(st.sampled_from(["AES-512", "aes-256", "AES-256-CBC", "", "DES", "HMAC-MD5", "HMAC-SHA-512", "hmac-sha-1", "PBKDF2-HMAC-SHA-512",
                                              "PBKDF1", "AES-128-GCM", "AES-256-GCM ", "ChaCha20", "Compressed ", "compressed", "Expanding", "plain", "",
                                              "TPM", "none", "NONE ", "vmware:keys", "vmware", "VMWARE:KEY", "key"]))}
    name = draw(st.sampled_from(VALUE_GATES + MAGIC_GATES))
    gates = byte_gates()
    width = gates[name][2]
    top = (1 << (8 * width)) - 1
    value = draw(st.one_of(st.sampled_from([0, 1, 2, 3, 4, 5, 8, 22, 0x300, 0x401, 0x500, 0xFF, top, top - 1, 1 << (8 * width - 1)]), st.integers(0, top)))
    return {"gate": name, "mode": "value", "value": value & top}


def strategy(tier):
    return strategy_(tier)


def check(spec) -> Outcome:
    out = Outcome()
    name = spec["gate"]
    out.cls(name.split(".")[0], spec["mode"])
    if spec["mode"] == "semantic":
        return semantic(spec, out)
    base_fn, off, width, endian, accepted, opener = byte_gates()[name]
    base = base_fn()
    order = "big" if endian == ">" else "little"
    cur = int.from_bytes(base[off : off + width], order)
    if spec["mode"] == "bitflip":
        raw = bytearray(base[off : off + width])
        raw[spec["bit"] // 8] ^= 1 << (spec["bit"] % 8)
        value = int.from_bytes(bytes(raw), order)
    else:
        value = spec["value"]
    if accepted(value):
        out.cls("value-in-accepted-set")
        return out
    # dual control: the base must open
    _obj, err = lib(opener, base if not name.startswith("qcow2.compression_type") else patch(base, off, (0).to_bytes(width, order)))
    if err:
        out.fail(f"control|{name}", f"the unmodified base does not open: {err.describe()}")
        return out
    mutated = patch(base, off, value.to_bytes(width, order))
    obj, err = lib(opener, mutated)
    out.nontrivial = True
    if err is None:
        out.fail(f"accepted|{name}", f"{name} = {value:#x} (was {cur:#x}) was accepted")
    return out


def semantic(spec, out):
    name = spec["gate"]
    n = spec["n"]
    out.nontrivial = True
    if name == "qcow2.data_file_bit":
        base = base_qcow2(comp=False)
        err = lib(open_qcow2, patch(base, 72, struct.pack(">Q", 1 << 2)))[1]
        ctl = lib(open_qcow2, base)[1]
    elif name == "qcow2.extl2_small_clusters":
        cb = 9 + n % 5  # 9..13
        good = base_qcow2(cb=14, ext=True)
        bad = patch(base_qcow2(cb=cb, ext=False, comp=False), 72, struct.pack(">Q", 1 << 4))
        err = lib(open_qcow2, bad)[1]
        ctl = lib(open_qcow2, good)[1]
    elif name == "qcow2.backing_without_object":
        # alone, or together with an external data file (named in the header or not) that the caller does supply
        variant = n % 3
        base = base_qcow2_backing(data_file=variant > 0, named=variant == 1)
        kw = {"data_file": io.BytesIO(bytes(8 << 12))} if variant else {}
        out.cls(["backing-only", "backing+named-data-file", "backing+unnamed-data-file"][variant])
        err = lib(open_qcow2, base, **kw)[1]
        ctl = lib(open_qcow2, base, backing_file=io.BytesIO(bytes(8 << 12)), **kw)[1]
    elif name == "qcow2.data_file_without_object":
        # the mirror image: the data file is missing while a backing file is supplied
        variant = n % 2
        base = base_qcow2_backing(data_file=True, named=bool(variant))
        err = lib(open_qcow2, base, backing_file=io.BytesIO(bytes(8 << 12)))[1]
        ctl = lib(open_qcow2, base, backing_file=io.BytesIO(bytes(8 << 12)), data_file=io.BytesIO(bytes(8 << 12)))[1]
    elif name == "vhdx.missing_region":
        base = base_vhdx()
        which = n % 2  # region table entries are at 3*64K + 16 + 32*i ; both tables are patched
        bad = base
        for t in (3, 4):
            bad = patch(bad, t * 65536 + 16 + 32 * which, bytes(range(16)))
        err = lib(open_vhdx, bad)[1]
        ctl = lib(open_vhdx, base)[1]
    elif name in ("vhdx.locator_type", "vhdx.parent_missing"):
        from dissect.hypervisor.disk.vhdx import VHDX

        d = scratch_dir()
        try:
            child = dict(VHDX_SPEC, has_parent=True, blocks=[], meta_order=[0, 1, 2, 3, 4, 5], locator=[["parent_linkage", "{83ed0ebf-a0e3-4bd2-a04a-46a2ba6e91be}"], ["relative_path", ".\\parent.vhdx"]])
            pfh, _l, _m = bvhdx.build(VHDX_SPEC)
            pfh.write_to(os.path.join(d, "parent.vhdx"))
            good, _l, _m = bvhdx.build(dict(child, name=os.path.join(d, "child.vhdx")))
            v, ctl = lib(VHDX, good)
            if v is not None and v.parent is not None:
                v.parent.fh.close()
            if name == "vhdx.locator_type":
                import uuid

                bad_type = str(uuid.UUID(int=(bvhdx.GUID_VHDX_LOCATOR_TYPE.int ^ (1 << (n % 128)))))
                bad, _l, _m = bvhdx.build(dict(child, name=os.path.join(d, "child.vhdx"), locator_type=bad_type))
            elif n % 3 == 0:
                os.remove(os.path.join(d, "parent.vhdx"))
                bad = good
                bad.seek(0)
            else:
                # the parent is there, but the differencing image arrives as a file object without a (usable) name: nothing
                # says where to look, so the parent is as missing as before
                bad, _l, _m = bvhdx.build(dict(child, name=None))
                if n % 3 == 2:
                    bad.name = ""
                out.cls("nameless-handle")
            v, err = lib(VHDX, bad)
            if v is not None and getattr(v, "parent", None) is not None:
                v.parent.fh.close()
        finally:
            shutil.rmtree(d, ignore_errors=True)
    elif name in ("hdd.image_type", "hdd.no_descriptor"):
        from dissect.hypervisor.disk.hdd import HDD

        d = scratch_dir()
        try:
            root = os.path.join(d, "x.hdd")
            os.mkdir(root)
            # a snapshot chain of 1..3 images; the unsupported Type sits on the base, a middle or the top image
            depth = 1 + n % 3
            bad_at = (n // 3) % depth
            nst = 1 + (n // 9) % 3  # split disks: the unsupported Type sits in one storage only
            bad_st = (n // 27) % nst
            guids = [f"1a2b3c4d-0000-4000-8000-00000000000{i}" for i in range(depth - 1)] + [bhdd.DEFAULT_TOP]
            for g in guids:
                with open(os.path.join(root, f"x.{g}.hds"), "wb") as f:
                    f.write(base_hds(2))
            out.cls(f"hdd-chain-depth={depth}", "bad-image=" + ("top" if bad_at == depth - 1 else "base" if bad_at == 0 else "middle"),
                    f"storages={nst}", "bad-storage=" + ("first" if bad_st == 0 else "later"))
            def desc(t):
                sts = []
                for si in range(nst):
                    images = [{"guid": g, "type": t if (i == bad_at and si == bad_st) else "Compressed", "file": f"x.{g}.hds"} for i, g in enumerate(guids)]
                    sts.append({"start": 24 * si, "end": 24 * (si + 1), "images": images})
                shots = [{"guid": g, "parent": guids[i - 1] if i else bhdd.NULL_GUID} for i, g in enumerate(guids)]
                return bhdd.descriptor_xml({"disk_size": 24 * nst, "storages": sts, "shots": shots})
            with open(os.path.join(root, "DiskDescriptor.xml"), "w") as f:
                f.write(desc("Compressed"))
            ctl = lib(lambda: HDD(Path(root)).open())[1]
            if name == "hdd.image_type":
                t = spec["name"] if spec["name"] not in ("Compressed", "Plain") else "Other"
                with open(os.path.join(root, "DiskDescriptor.xml"), "w") as f:
                    f.write(desc(t))
                hobj, err = lib(HDD, Path(root))
                if err is None:
                    err = lib(hobj.open)[1]
                    # asked again on the same object, the answer is the same (nothing half-opened is kept and served)
                    again = lib(hobj.open)[1]
                    if err is not None and again is None:
                        out.fail("accepted|hdd.image_type.second-open", "a second open() on the same HDD object served the refused image")
            else:
                os.remove(os.path.join(root, "DiskDescriptor.xml"))
                err = lib(lambda: HDD(Path(root)))[1]
        finally:
            shutil.rmtree(d, ignore_errors=True)
    elif name in ("envelope.cipher_name", "envelope.missing_attribute"):
        ctl = lib(open_envelope, base_envelope())[1]
        s = dict(ENV_SPEC)
        if name == "envelope.cipher_name":
            cn = spec["name"] if spec["name"] != "AES-256-GCM" else "AES-128-GCM"
            s["attrs"] = [[t, f, k, (cn if k == "vmware.cipherName" else v)] for t, f, k, v in ENV_SPEC["attrs"]]
            s["cipher"] = cn
        else:
            req = ["vmware.keyInfo", "vmware.cipherName", "vmware.keyHash"][n % 3]
            s["attrs"] = [a for a in ENV_SPEC["attrs"] if a[2] != req]
        data, _p, _a, _r = benv.build(s)
        err = lib(open_envelope, data)[1]
    elif name == "keystore.mode":
        from dissect.hypervisor.util.envelope import KeyStore

        good, _k, _i = benv.keystore_text({"key_id": bytes(16).hex(), "data1": "aa", "data2": "bb"})
        ctl = None  # the valid keystore costs 100k PBKDF2 rounds; covered by C16
        mode = spec["name"].strip(' "')  # the dictionary syntax strips spaces and quotes around a value
        if n % 5 == 0:
            # a value that continues, behind a character some text APIs take for a line boundary (the format's lines end at LF),
            # with what would be an accepted assignment
            mode = (mode or "TPM") + "\x0c\x0b\x1c\x1d\x1e\x85\u2028\u2029"[(n // 5) % 8] + 'mode = "NONE'
            out.cls("mode-with-line-boundary-character")
        bad = good.replace('mode = "NONE"', f'mode = "{mode}"') if mode not in ("NONE",) and n % 4 else good.replace('mode = "NONE"\n', "")
        if bad.startswith('mode = "NONE"') or '\nmode = "NONE"' in bad:
            bad = good.replace('mode = "NONE"\n', "")
        err = lib(KeyStore.from_text, bad)[1]
    elif name == "vhdx.unknown_required_metadata":
        # an item the reader does not know is ignorable only if the file does not flag it as required (MS-VHDX 2.6.2.2)
        kind = ["system-required", "user-required", "system-vd-required"][n % 3]
        good = bvhdx.build(dict(VHDX_SPEC, extra_meta=kind.replace("-required", "")))[0].materialize()
        bad = bvhdx.build(dict(VHDX_SPEC, extra_meta=kind))[0].materialize()
        ctl = lib(open_vhdx, good)[1]
        err = lib(open_vhdx, bad)[1]
    elif name == "blanked_structure":
        # a validated structure whose whole region is blank (all 0x00 or all 0xFF) carries no signature either
        hv, _replay = base_hyperv()
        cands = [("hyperv.key_table", hv, 0x3000, 0x1000, open_hyperv), ("hyperv.object_table", hv, 0x2000, 0x1000, open_hyperv),
                 ("hyperv.nested.key_table", base_hyperv_chained(), 0x4000, 0x1000, open_hyperv),
                 ("vhdx.region_table_1", base_vhdx(), 3 * 65536, 65536, open_vhdx), ("vhdx.region_table_2", base_vhdx(), 4 * 65536, 65536, open_vhdx),
                 ("vhdx.metadata_table", base_vhdx(), 2 << 20, 65536, open_vhdx), ("vdi.header", base_vdi(), 0, 512, open_vdi),
                 ("hds.header", base_hds(1 + n % 2), 0, 64, open_hds), ("envelope.header", base_envelope(), 0, 4096, open_envelope),
                 ("qcow2.header", base_qcow2(), 0, 104, open_qcow2)]
        what, base, off, ln, opener = cands[n % len(cands)]
        fill = b"\x00" if (n // len(cands)) % 2 == 0 else b"\xff"
        out.cls("blanked:" + what)
        ctl = lib(opener, base)[1]
        err = lib(opener, patch(base, off, fill * ln))[1]
    elif name.startswith("keysafe."):
        return keysafe(spec, out)
    else:
        raise ValueError(name)
    if ctl is not None:
        out.fail(f"control|{name}", f"the unmodified base does not open: {ctl.describe()}")
        return out
    if err is None:
        out.fail(f"accepted|{name}", f"unsupported input was accepted (n={n}, name={spec.get('name')!r}, text={spec.get('text')!r})")
    return out


def keysafe(spec, out):
    import copy

    from dissect.hypervisor.descriptor.vmx import VMX

    name = spec["gate"]
    text, after, before, _l = bvx.build(VMX_SPEC)
    v = VMX.parse(text)
    _, ctl = lib(v.unlock_with_phrase, "secret")
    if ctl is not None or v.attr != after:
        out.fail(f"control|{name}", "the unmodified encrypted VMX does not unlock")
        return out
    if name == "keysafe.identifier":
        ident = spec["name"] if spec["name"] != "vmware:key" else "vmware:keys"
        bad = text.replace("vmware:key/list/", ident + "/list/", 1)
    elif name == "keysafe.locator_kind":
        kind = spec["text"] if spec["text"] not in ("list", "pair", "phrase") else "rawkey"
        where = spec["n"] % 5
        if where >= 3:
            # a list that holds a usable pair and, after or before it, a second member of an unknown kind
            i, j = text.index("/list/(") + len("/list/("), text.index(')"', text.index("/list/("))
            member = text[i:j]
            other = member.replace("pair/(phrase/", f"pair/({kind}/", 1) if spec["n"] % 2 else member.replace("pair/(", f"{kind}/(", 1)
            bad = text[:i] + (member + "," + other if where == 3 else other + "," + member) + text[j:]
            out.cls("mixed-locator-list")
        else:
            old = ["/list/(", "(pair/(", "(phrase/"][where]
            new = [f"/{kind}/(", f"({kind}/(", f"({kind}/"][where]
            bad = text.replace(old, new, 1)
    else:
        s = copy.deepcopy(VMX_SPEC)
        which = spec["n"] % 3
        bogus = spec["name"]
        if which == 0:
            if bogus in bvx.KEY_SIZES:
                bogus = "AES-512"
            bad = text.replace(bvx.q(bvx.q_min("AES-256")), bvx.q(bvx.q_min(bogus)), 1)
        elif which == 1:
            if bogus in bvx.KDFS:
                bogus = "PBKDF1"
            bad = text.replace(bvx.q(bvx.q_min("PBKDF2-HMAC-SHA-1")), bvx.q(bvx.q_min(bogus)), 1)
        else:
            if bogus in bvx.MACS:
                bogus = "HMAC-MD5"
            bad = text.replace("," + bvx.q("HMAC-SHA-1") + ",", "," + bvx.q(bogus) + ",", 1)
    if bad == text:
        out.cls("keysafe-noop")
        out.nontrivial = False
        return out
    v = VMX.parse(bad)
    b4 = copy.deepcopy(v.attr)
    _, err = lib(v.unlock_with_phrase, "secret")
    if err is None:
        out.fail(f"accepted|{name}", f"unlock succeeded for an unsupported key safe ({spec.get('name')!r}/{spec.get('text')!r})")
    elif v.attr != b4:
        out.fail(f"mutated|{name}", "attr changed although unlocking an unsupported key safe failed")
    return out
