"""C18 — VM configuration files: the disk list is exactly the VM's hard disks."""
from __future__ import annotations

import io

from hypothesis import strategies as st

from hv.builders import xmlcfg as bx
from hv.core import Outcome, lib

ID = "C18"
RULE = (
    "Hypothesis draws configurations of four kinds from grammars with a semantic model. VMX: devices on scsi/sata/ide/nvme "
    "buses with any bus:unit numbers (incl. two-digit units), fileName present/absent/empty, deviceType disk-like "
    "(scsi-hardDisk, disk, ide-hardDisk, any case) / non-disk (cdrom-image, cdrom-raw, atapi-cdrom) / absent, controller keys, "
    "unrelated keys (ethernet, floppy, usb, sched.scsi0:0.*, displayName ...), random key casing, ordering, separators, "
    "quoting, comments, blank lines, CRLF, duplicate assignments in different casing (last wins). OVF: file/disk/item graphs "
    "with ResourceType 17 items using ovf:/disk/, /disk/, ovf:/file/, /file/ host resources, other item types with or "
    "without host resources (CD/DVD/floppy with ISO files), ids starting with o/v/f/: characters, renamed or default "
    "namespace prefixes, redundant namespace declarations. VirtualBox: nested HardDisk registries with formats "
    "VDI/vdi/VMDK/VHD/absent and types Normal/Immutable/Writethrough/absent, DVD and floppy images, default or prefixed "
    "namespace. PVS: Hdd/CdRom/Fdd/NetworkAdapter lists with or without SystemName, with or without Partition children that carry names of their own. Oracle: disks() equals the model's hard "
    "disk backing files (VMX sorted, XML kinds in document order) and VMX.parse().attr equals the lower-cased last-wins "
    "dictionary; a second disks() call (optionally after peeking at the first entry, optionally after a second configuration "
    "of the same kind was parsed and listed) gives the same list. Non-trivial = >= 1 disk and >= 1 non-disk device."
    " The VMX dictionary also as the encrypted part of an encrypted configuration (unlocked directly or after a failed attempt); TAB characters between key and '='; OVF File / Disk elements with same-named attributes of foreign namespaces."
)
RULE += ' Round 10: line-boundary characters inside VMX values; handle closed before listing; the same VMX text parsed again after the caller edited the first attr; CDATA; an OVF 2 twin loaded first; OVF empty disks and drives without medium; VMX entries that only begin like device keys (model = device-key grammar).'
ASSUMPTIONS = [
    "VMX values have no leading/trailing spaces or quotes (the dictionary format strips them) and every device key has a property part",
    "VMX devices are not marked present = FALSE together with a file name (the statement does not say how those count)",
    "OVF items of ResourceType 17 always carry a HostResource; VirtualSystemCollection envelopes are out of scope",
    "VirtualBox: the hard disks are the registry entries of type Normal in VDI format (the filter the reader documents)",
]

KINDS = ["vmx", "vmx", "ovf", "vbox", "pvs"]
FILE_NAMES = ["disk.vmdk", "Virtual Disk-cl1.vmdk", "disk-000003.vmdk", "C:\\vms\\a b\\d.vmdk", "/vmfs/volumes/ds1/vm/vm_1.vmdk", "dïsk 🦊.vmdk",
              "d=1#2.vmdk", "x.vmdk", "ide.vmdk", "scsi0.vmdk"]
# VMX only (not all of them are XML characters): characters that some text APIs (str.splitlines) treat as line boundaries, inside a value
VMX_FILE_NAMES = FILE_NAMES + ["Data\u2028Disk.vmdk", "a\x85b\x0cc\x1cd.vmdk", "p\u2029q\x0br.vmdk"]
DISK_TYPES = ["scsi-hardDisk", "disk", "ide-hardDisk", "SCSI-HARDDISK", "Disk"]
NONDISK_TYPES = ["cdrom-image", "cdrom-raw", "atapi-cdrom", "CDROM-IMAGE"]
UNITS = {"scsi": (3, 15), "sata": (3, 29), "ide": (1, 1), "nvme": (3, 14)}


def budget(tier):
    return 16000 if tier == "quick" else 100000


@st.composite
def recase(draw, key):
    mode = draw(st.sampled_from(["as-is", "as-is", "lower", "upper", "random"]))
    if mode == "as-is":
        return key
    if mode == "lower":
        return key.lower()
    if mode == "upper":
        return key.upper()
    return "".join(c.upper() if draw(st.booleans()) else c.lower() for c in key)


@st.composite
def vmx_spec(draw):
    ndev = draw(st.integers(0, 6))
    devs = {}
    for _ in range(ndev):
        cls = draw(st.sampled_from(list(UNITS)))
        bus = draw(st.integers(0, UNITS[cls][0]))
        unit = draw(st.one_of(st.integers(0, min(3, UNITS[cls][1])), st.integers(0, UNITS[cls][1])))
        devs[(cls, bus, unit)] = {
            "file": draw(st.sampled_from(VMX_FILE_NAMES + [None, ""])), "type": draw(st.sampled_from(DISK_TYPES + NONDISK_TYPES + [None, None, None])),
        }
    lines = []
    for (cls, bus, unit), d in devs.items():
        dev = f"{cls}{bus}:{unit}"
        props = [["present", "TRUE"]]
        if d["file"] is not None:
            props.append(["fileName", d["file"] if d["type"] not in NONDISK_TYPES or d["file"] == "" else d["file"].replace(".vmdk", ".iso")])
        if d["type"] is not None:
            props.append(["deviceType", d["type"]])
        props.append([draw(st.sampled_from(["redo", "mode", "ctkEnabled", "vmxstats.filename", "pciSlotNumber"])), draw(st.sampled_from(["", "persistent", "x.vmdk"]))])
        for k, v in draw(st.permutations(props)):
            lines.append(["kv", dev + "." + k, v])
        if draw(st.booleans()):
            lines.append(["kv", f"{cls}{bus}.present", "TRUE"])
            lines.append(["kv", f"{cls}{bus}.virtualDev", draw(st.sampled_from(["lsilogic", "pvscsi", "ahci"]))])
    unrelated = [["displayName", "my vm"], [".encoding", "UTF-8"], ["ethernet0.present", "TRUE"], ["ethernet0.fileName", "none.vmdk"],
                 ["floppy0.fileName", "boot.flp"], ["usb.present", "TRUE"], ["sched.scsi0:0.shares", "normal"], ["memsize", "2048"],
                 ["guestOS", "other"], ["serial0.fileName", "serial.out"], ["nvram", "vm.nvram"], ["config.version", "8"],
                 # entries whose names merely begin with the letters of a device class: not devices (a device is <class><bus>:<unit>.<property>)
                 ["ideal", "x"], ["idea.fileName", "plan.vmdk"], ["satabogus3:1.fileName", "ghost.vmdk"], ["nvmexpress.fileName", "n.vmdk"], ["scsibus", "1"],
                 ["annotation", "a = b # c"], ["annotation", "note\u2028sata0:3.fileName = ghost.vmdk"], ["extendedConfigFile", "vm.vmxf"], ["sound.fileName", "-1"]]
    for kv in draw(st.lists(st.sampled_from(unrelated), max_size=6, unique_by=lambda x: x[0])):
        lines.append(["kv", kv[0], kv[1]])
    lines = list(draw(st.permutations(lines)))
    # duplicate assignments (different casing): the later one wins
    ndup = draw(st.integers(0, 2))
    kvs = [ln for ln in lines if ln[0] == "kv"]
    for _ in range(ndup):
        if not kvs:
            break
        k = draw(st.sampled_from(kvs))
        newv = draw(st.sampled_from(["other.vmdk", "", "cdrom-image", k[2]]))
        lines.append(["kv", k[1], newv])
    final = []
    for ln in lines:
        key = draw(recase(ln[1]))
        final.append(["kv", key, ln[2], {"sep": draw(st.sampled_from([" = ", "=", " =", "= ", "  =  ", "\t= ", "\t=", " \t = "])), "quote": draw(st.sampled_from([True, True, True, False])) or ln[2] == "",
                                         "indent": draw(st.sampled_from(["", "", " ", "\t"])), "trail": draw(st.sampled_from(["", "", " ", "\t"]))}])
        r = draw(st.integers(0, 9))
        if r == 0:
            final.append(["comment", draw(st.sampled_from([" scsi0:9.fileName = \"commented.vmdk\"", "!/usr/bin/vmware", ""]))])
        elif r == 1:
            final.append(["blank"])
    style = {"crlf": draw(st.booleans()), "final_newline": draw(st.booleans())}
    # the same dictionary as the encrypted part of an encrypted configuration: listed after unlocking, where a first attempt with a
    # wrong passphrase may have failed before
    return {"kind": "vmx", "lines": final, "style": style, "encrypted": draw(st.sampled_from([None, None, None, None, "direct", "retry"]))}


import re as _re

_DEVICE_KEY = _re.compile(r"^(scsi|sata|ide|nvme)(\d+(?::\d+)?)\.(.+)$", _re.S)


def vmx_expected_disks(attr: dict) -> list[str]:
    devs = {}
    for k, v in attr.items():
        m = _DEVICE_KEY.match(k)
        if m:  # <class><bus>[:<unit>].<property>; anything else is an unrelated entry, whatever letters it starts with
            devs.setdefault((m.group(1), m.group(2)), {})[m.group(3)] = v
    res = []
    for props in devs.values():
        fn = props.get("filename")
        if fn:
            dt = props.get("devicetype")
            if not dt or "disk" in dt.lower():
                res.append(fn)
    return sorted(res)


IDS = ["file1", "vmdisk1", "ovfdisk", "f", "v:1", "o-v_f.2", "disk", "file", "ffile", "d1", "d2", "iso1", ":x", "vo",
       "vmdisk#2", "iso?1", "a%20b", "x;y"]  # ids are opaque strings, not URI components (no "/": it separates the path steps)


@st.composite
def ovf_spec(draw):
    fids = draw(st.lists(st.sampled_from(IDS), min_size=1, max_size=5, unique=True))
    files = [[f, draw(st.sampled_from(FILE_NAMES + ["cd.iso", "disk1.vmdk", "disk2.vmdk"]))] for f in fids]
    dids = draw(st.lists(st.sampled_from(IDS), max_size=4, unique=True))
    disks = [[d, draw(st.sampled_from(fids)) if draw(st.integers(0, 7)) else None] for d in dids]  # one in eight: an empty disk (no fileRef)
    items = []
    for _ in range(draw(st.integers(0, 8))):
        rt = draw(st.sampled_from([17, 17, 17, 3, 4, 5, 6, 10, 14, 15, 16, 20, 23, 35]))
        if rt == 17:
            forms = []
            if dids:
                forms += [f"ovf:/disk/{draw(st.sampled_from(dids))}", f"/disk/{draw(st.sampled_from(dids))}"]
            forms += [f"ovf:/file/{draw(st.sampled_from(fids))}", f"/file/{draw(st.sampled_from(fids))}"]
            host = draw(st.sampled_from(forms)) if draw(st.integers(0, 9)) else None  # one in ten: a disk drive without medium
        elif rt in (14, 15, 16):
            host = draw(st.sampled_from([None, f"ovf:/file/{draw(st.sampled_from(fids))}", f"/disk/{draw(st.sampled_from(dids))}" if dids else None]))
        else:
            host = None
        items.append({"rt": rt, "host": host, "name": draw(st.sampled_from(["disk1", "cdrom", "cpu", "Ethernet adapter on 'NAT'", "a & b <c>"]))})
    op = draw(st.sampled_from(["", "", "ovf", "o", "env"]))
    return {"kind": "ovf", "files": files, "disks": disks, "items": items, "ovf_prefix": op,
            "attr_prefix": draw(st.sampled_from(["ovf", "ovf", "a", op or "ovf"])), "rasd_prefix": draw(st.sampled_from(["rasd", "rasd", "r", "RASD"])),
            "redundant_ns": draw(st.booleans()), "comments": draw(st.booleans()), "sq": draw(st.booleans()),
            "foreign_attrs": draw(st.sampled_from([None, None, None, "before", "after"])), "cdata": draw(st.booleans()),
            # an envelope of the OVF 2 namespace is loaded first (whatever comes of it): this envelope's answer does not depend on it
            "ovf2_first": draw(st.integers(0, 3)) == 0}


@st.composite
def vbox_node(draw, depth):
    node = {"location": draw(st.sampled_from(FILE_NAMES[:4] + ["os2warp4.vdi", "Snapshots/{a}.vdi", "d.vmdk", None]))
            , "format": draw(st.sampled_from(["VDI", "VDI", "vdi", "Vdi", "VMDK", "VHD", None])),
            "type": draw(st.sampled_from(["Normal", "Normal", "Normal", "Immutable", "Writethrough", "normal", None])), "children": []}
    if depth < 3:
        for _ in range(draw(st.sampled_from([0, 0, 0, 1, 2]))):
            node["children"].append(draw(vbox_node(depth + 1)))
    return node


@st.composite
def vbox_spec(draw):
    return {"kind": "vbox", "prefix": draw(st.sampled_from(["", "", "vb", "v"])), "disks": [draw(vbox_node(0)) for _ in range(draw(st.integers(0, 4)))],
            "dvds": draw(st.lists(st.sampled_from(["a.iso", "VBoxGuestAdditions.iso", "x.vdi"]), max_size=2)),
            "floppies": draw(st.lists(st.sampled_from(["boot.img", "f.vdi"]), max_size=1)), "comments": draw(st.booleans())}


@st.composite
def pvs_spec(draw):
    devs = []
    for _ in range(draw(st.integers(0, 7))):
        kind = draw(st.sampled_from(["Hdd", "Hdd", "Hdd", "CdRom", "Fdd", "NetworkAdapter"]))
        devs.append({"kind": kind, "system_name": draw(st.sampled_from(["Fedora-0.hdd", "harddisk1.hdd", "d & <e>.hdd", "/Users/x/a b.hdd", "cd.iso", None,
                                                                      "仮想ディスク" * 20 + "\U0001F5B4\U0001F98A.hdd", "Жёсткий диск е\u0301.hdd"])),
                     "first": draw(st.booleans()),
                     "partitions": draw(st.sampled_from([None, None, None, ["/dev/disk0s1"], ["/dev/disk0s1", "/dev/disk0s2"]]))})
    return {"kind": "pvs", "devices": devs, "comments": draw(st.booleans()), "cdata": draw(st.booleans())}


@st.composite
def strategy_(draw, tier):
    k = draw(st.sampled_from(KINDS))
    gen = {"vmx": vmx_spec(), "ovf": ovf_spec(), "vbox": vbox_spec(), "pvs": pvs_spec()}[k]
    spec = draw(gen)
    # listing is repeatable, and one configuration's answer does not depend on others parsed in the same process
    spec["peek_first"] = draw(st.sampled_from([False, False, True]))
    if draw(st.integers(0, 2)) == 0:
        spec["companion"] = draw(gen)
    # the caller's handle is closed (left its with-block) once the object is built, before anything is listed
    spec["close_handle"] = draw(st.booleans())
    return spec


def strategy(tier):
    return strategy_(tier)


def encrypted_wrapper(text: str) -> str:
    """An encrypted configuration (one passphrase pair, "secret") whose encrypted part is `text`."""
    import base64

    from hv.builders import vmxcrypt as bvx
    from hv.props.c12 import VMX_SPEC as base

    pair = base["pairs"][0]
    data_key = bytes.fromhex(base["data_key"])
    data = bvx.seal(data_key, bytes.fromhex(base["data_iv"]), text.encode(), pair["mac"])
    keysafe = "vmware:key/list/(" + bvx.pair_text(pair, bvx.pair_fields(pair, data_key, base["data_cipher"])) + ")"
    return (f'.encoding = "UTF-8"\ndisplayName = "vm"\nencryption.keySafe = "{keysafe}"\n'
            f'encryption.data = "{base64.b64encode(bvx.blob(data)).decode()}"\n')


def document(spec, prolog=""):
    k = spec["kind"]
    if k == "ovf":
        return bx.ovf_xml(spec, prolog), bx.ovf_disks(spec)
    if k == "vbox":
        return bx.vbox_xml(spec, prolog), bx.vbox_disks(spec)
    if k == "pvs":
        return bx.pvs_xml(spec, prolog), bx.pvs_disks(spec)
    raise ValueError(k)


def parse(kind, text, close=False):
    fh = io.StringIO(text)
    if kind == "ovf":
        from dissect.hypervisor.descriptor.ovf import OVF as cls
    elif kind == "vbox":
        from dissect.hypervisor.descriptor.vbox import VBox as cls
    else:
        from dissect.hypervisor.descriptor.pvs import PVS as cls
    obj = cls(fh)
    if close:
        fh.close()
    return obj


def check(spec) -> Outcome:
    out = Outcome()
    kind = spec["kind"]
    out.cls(kind)
    if kind == "vmx":
        from dissect.hypervisor.descriptor.vmx import VMX

        text = bx.vmx_text(spec["lines"], spec["style"])
        model = bx.vmx_model(spec["lines"])
        exp = vmx_expected_disks(model)
        v, err = lib(VMX.parse, text)
        if err:
            out.fail(err.sig("vmx-parse"), f"VMX.parse raised {err.describe()}")
            return out
        if v.attr != model:
            diff = {k: (v.attr.get(k), model.get(k)) for k in set(v.attr) | set(model) if v.attr.get(k) != model.get(k)}
            out.fail("mismatch|vmx-attr", f"attr differs: {dict(list(diff.items())[:4])}")
        got, err = lib(v.disks)
        if err:
            out.fail(err.sig("vmx-disks"), f"disks() raised {err.describe()}")
            return out
        if list(got) != exp:
            out.fail("mismatch|vmx-disks", f"disks() {list(got)} != {exp}")
        if spec.get("encrypted") and not out.failures:
            out.cls("vmx-encrypted-" + spec["encrypted"])
            ve, err = lib(VMX.parse, encrypted_wrapper(text))
            if err:
                out.fail(err.sig("vmx-encrypted-parse"), f"VMX.parse raised {err.describe()}")
                return out
            if spec["encrypted"] == "retry":
                _r, err = lib(ve.unlock_with_phrase, "Secret")
                if not err:
                    out.fail("accepted|vmx-encrypted-wrong-passphrase", "unlocking with a wrong passphrase did not raise")
            _r, err = lib(ve.unlock_with_phrase, "secret")
            if err:
                out.fail(err.sig("vmx-encrypted-unlock"), f"unlock_with_phrase(correct passphrase) raised {err.describe()}")
                return out
            got_e, err = lib(lambda: list(ve.disks()))
            if err or got_e != exp:
                out.fail("mismatch|vmx-encrypted-disks", f"disks() after unlocking gave {got_e if not err else err.describe()}, expected {exp}")
        if spec.get("companion"):
            c = spec["companion"]
            v2, err = lib(VMX.parse, bx.vmx_text(c["lines"], c["style"]))
            if not err:
                exp2 = vmx_expected_disks(bx.vmx_model(c["lines"]))
                got2, err = lib(lambda: list(v2.disks()))
                if not err and got2 != exp2:
                    out.fail("mismatch|vmx-disks-second", f"second configuration: disks() {got2} != {exp2}")
            out.cls("with-companion")
        again, err = lib(lambda: list(v.disks()))
        if err or again != exp:
            out.fail("mismatch|vmx-disks-again", f"a later disks() call gave {again if not err else err.describe()}, expected {exp}")
        # the caller edits the dictionary of the first object (it is theirs), then parses the same text again: the new object shows
        # what the text says
        lib(v.attr.clear)
        v.attr["scsi0:0.filename"] = "edited-by-caller.vmdk"
        v3, err = lib(VMX.parse, text)
        if err:
            out.fail(err.sig("vmx-parse-again"), f"VMX.parse of the same text again raised {err.describe()}")
        else:
            got3, err = lib(lambda: list(v3.disks()))
            if err or got3 != exp or v3.attr != model:
                out.fail("mismatch|vmx-parse-again", f"the same text parsed again after the caller edited the first object's attr: disks() {got3 if not err else err.describe()}, expected {exp}")
        nondisk = any(ln[0] == "kv" and ln[1].lower().endswith(".devicetype") and "disk" not in ln[2].lower() for ln in spec["lines"])
        out.nontrivial = bool(exp) and nondisk
        out.cls(f"vmx-disks={min(len(exp), 3)}")
        return out
    text, exp = document(spec)
    if spec.get("ovf2_first"):
        other, err = lib(parse, kind, text.replace(bx.OVF_NS, bx.OVF_NS[:-1] + "2"))
        if not err:
            lib(lambda: list(other.disks()))
        out.cls("after-an-ovf2-envelope")
    obj, err = lib(parse, kind, text, bool(spec.get("close_handle")))
    if err:
        out.fail(err.sig(kind + "-parse"), f"{kind} parser raised {err.describe()}")
        return out
    if spec.get("close_handle"):
        out.cls("handle-closed-before-listing")
    if spec.get("peek_first"):
        first, err = lib(lambda: next(iter(obj.disks()), None))
        if not err and first != (exp[0] if exp else None):
            out.fail(f"mismatch|{kind}-disks-peek", f"first listed disk {first!r}, expected {exp[:1]}")
        out.cls("peek-first")
    got, err = lib(lambda: list(obj.disks()))
    if err:
        out.fail(err.sig(kind + "-disks"), f"disks() raised {err.describe()}")
        return out
    if got != exp:
        out.fail(f"mismatch|{kind}-disks", f"disks() {got} != {exp}")
    if spec.get("companion"):
        text2, exp2 = document(spec["companion"])
        obj2, err = lib(parse, kind, text2)
        if not err:
            got2, err = lib(lambda: list(obj2.disks()))
            if not err and got2 != exp2:
                out.fail(f"mismatch|{kind}-disks-second", f"second configuration: disks() {got2} != {exp2}")
        out.cls("with-companion")
    again, err = lib(lambda: list(obj.disks()))
    if err or again != exp:
        out.fail(f"mismatch|{kind}-disks-again", f"a later disks() call gave {again if not err else err.describe()}, expected {exp}")
    if kind == "ovf":
        out.nontrivial = bool(exp) and any(it["rt"] != 17 for it in spec["items"])
    elif kind == "vbox":
        total = sum(1 for _ in _walk(spec["disks"]))
        out.nontrivial = bool(exp) and (total > len(exp) or bool(spec["dvds"]))
    else:
        out.nontrivial = bool(exp) and any(d["kind"] != "Hdd" for d in spec["devices"])
    out.cls(f"{kind}-disks={min(len(exp), 3)}")
    return out


def _walk(nodes):
    for n in nodes:
        yield n
        yield from _walk(n.get("children", []))
