"""C05 — VDI: every byte range reads as the guest-visible content."""
from __future__ import annotations

from hypothesis import strategies as st

from hv import strat
from hv.builders import vdi as bvdi
from hv.core import Outcome, check_reads, lib

ID = "C05"
RULE = (
    "Hypothesis draws a VDI spec (block size 2^9..2^22, block count, disk size not necessarily a block multiple, "
    "block map = any mix of allocated/unallocated(-1)/zero(-2) with a physical placement permutation with gaps, "
    "table/data offsets) plus (offset,length) requests biased to block/buffer boundaries and the tail; an independent "
    "struct-based writer produces the image and a content model; VDI(fh).read must equal the model. "
    "Non-trivial = some request spans >= 2 blocks whose physical positions are not consecutive ascending, or touches "
    "the partial last block; distinct = BLAKE2 of the canonical spec JSON."
    ' Images are also opened by a second reader on the same handle after the first reader was dropped.'
    ' One image in eight stores its blocks at pointers 0x7FFFFFF0 .. 0xFFFFFFFD (unsigned block pointers).'
)
RULE += ' Round 10: transient OSError then retry; content flavours; two readers over one handle; anonymous temp-file handles.'
ASSUMPTIONS = [
    "block sizes are powers of two >= 512 (the statement says 'every block size'; VDICore only requires a power of two)",
    "writer is independent of the repo's c_vdi layout (struct.pack from VDICore.h)",
]


def budget(tier):
    return 16000 if tier == "quick" else 60000


@st.composite
def vdi_spec(draw, tier="quick", layer=0, fixed_geometry=None):
    if fixed_geometry:
        bs, nb, size = fixed_geometry
    else:
        bits = draw(st.one_of(st.sampled_from([20, 20, 16, 12, 9]), st.integers(9, 22 if tier == "thorough" else 21)))
        bs = 1 << bits
        if draw(st.integers(0, 5)) == 0:
            bs = draw(st.sampled_from([1536, 12288, 65536 + 512, 3 * 65536, 3 << 20, 1000 * 512]))  # "every block size": not a power of two
        nb = draw(st.one_of(st.integers(1, 6), st.integers(1, 40), st.sampled_from([1023, 1025, 4097, 9000])))
        tail = draw(st.sampled_from([0, 0, 512, 1024, 4096 + 512, 8192, 8192 + 512, -512]))
        last = bs if tail == 0 else (tail % bs) or bs
        last = max(512, (last // 512) * 512)
        size = (nb - 1) * bs + last
    if nb <= 40:
        kinds = dict(enumerate(draw(st.lists(st.sampled_from(["a", "a", "a", "u", "z"]), min_size=nb, max_size=nb))))
    else:
        idx = set(draw(strat.sparse_subset(nb, 24))) | {b for b in (0, 1023, 1024, 4095, 4096, nb - 1) if b < nb and draw(st.booleans())}
        kinds = {i: draw(st.sampled_from(["a", "a", "a", "z"])) for i in sorted(idx)}
    alloc_l = [i for i, k in sorted(kinds.items()) if k == "a"]
    slots = draw(strat.placement(len(alloc_l)))
    if slots and layer == 0 and draw(st.integers(0, 7)) == 0:
        # block pointers are unsigned 32-bit values (only 0xFFFFFFFF / 0xFFFFFFFE are markers): blocks stored at and beyond pointer
        # 2^31, up to the largest pointer there is (sparse in-memory file, so the position costs nothing)
        base = draw(st.sampled_from([0x7FFFFFF0, 0x80000000, 0xC0000001, 0xFFFFFFFD - max(slots)]))
        slots = [min(s_ + base, 0xFFFFFFFD - (max(slots) - s_)) for s_ in slots]
    bo = 512 * draw(st.sampled_from([1, 2, 8, 2048, 3]))
    do_min = bo + 4 * nb
    do = ((do_min + 511) // 512) * 512 + 512 * draw(st.sampled_from([0, 0, 1, 7, 2048]))
    spec = {
        "block_size": bs, "nblocks": nb, "disk_size": size, "blocks_offset": bo, "data_offset": do,
        "alloc": [[lg, ph] for lg, ph in zip(alloc_l, slots)], "zero": [i for i, k in sorted(kinds.items()) if k == "z"],
        "layer": layer,
    }
    return spec


@st.composite
def strategy_(draw, tier):
    spec = draw(vdi_spec(tier))
    bs = spec["block_size"]
    pts = []
    for b, _ph in spec["alloc"][:32]:
        pts += [b * bs, (b + 1) * bs]
    spec["requests"] = draw(strat.requests(spec["disk_size"], bs, count=6, points=pts, whole_limit=4 << 20))
    spec["via_gzip"] = draw(st.integers(0, 7)) == 0
    spec["via_minimal"] = draw(st.sampled_from([None, None, None, None, "plain", "seek-none", "reopen", "shared", "tempfile"]))
    spec["fault"] = draw(strat.fault())
    spec["flavours"] = draw(st.booleans())
    spec["parent_positional"] = draw(st.booleans())
    spec["banner"] = draw(st.sampled_from(["<<< Oracle VM VirtualBox Disk Image >>>\n", "<<< Oracle VM VirtualBox Disk Image >>>\n",
                                           "<<< Sun xVM VirtualBox Disk Image >>>\n", "<<< innotek VirtualBox Disk Image >>>\n",
                                           "<<< QEMU VM Virtual Disk Image >>>\n", "", "<<< CloneVDI >>>"]))
    if draw(st.integers(0, 5)) == 0:  # a parent image below: zero blocks stay zero, unallocated ones fall through
        pbs = bs if draw(st.booleans()) else 1 << draw(st.sampled_from([9, 12, 16, 20]))  # the parent may use another block size
        while spec["disk_size"] // pbs > 1 << 18:  # the block map is read at open: keep it below 1 MiB (cost bound)
            pbs <<= 1
        spec["parent"] = draw(vdi_spec(tier, layer=1, fixed_geometry=(pbs, -(-spec["disk_size"] // pbs), spec["disk_size"])))
    return spec


def strategy(tier):
    return strategy_(tier)


def nontrivial(spec) -> bool:
    bs = spec["block_size"]
    phys = dict(map(tuple, spec["alloc"]))
    size = spec["disk_size"]
    for off, n in spec["requests"]:
        n = min(n, size - off)
        if n <= 0:
            continue
        b0, b1 = off // bs, (off + n - 1) // bs
        if b1 > b0:
            for b in range(b0, b1):
                pa, pb = phys.get(b), phys.get(b + 1)
                if pa is None or pb is None or pb != pa + 1:
                    return True
        if size % bs and b1 == size // bs:
            return True
    return False


def check(spec) -> Outcome:
    from dissect.hypervisor.disk.vdi import VDI

    out = Outcome()
    fh, lay, meta = bvdi.build(spec)
    out.nontrivial = nontrivial(spec)
    out.cls(f"bs=2^{spec['block_size'].bit_length() - 1}" if spec["block_size"] & (spec["block_size"] - 1) == 0 else "bs=not-a-power-of-two", "tail_partial" if spec["disk_size"] % spec["block_size"] else "tail_full")
    if spec["block_size"] < 8192:
        out.cls("block<buffer")
    if any(ph >= 1 << 31 for _, ph in spec["alloc"]):
        out.cls("pointer>=2^31")
    if spec.get("parent"):
        from hv.sparse import Overlay

        pfh, play, _ = bvdi.build(spec["parent"])
        parent, err = lib(VDI, pfh)
        if err:
            out.fail(err.sig("vdi-open"), f"VDI(parent) raised {err.describe()}")
            return out
        out.cls("with-parent")
        # the parent is the constructor's second parameter: given by keyword or by position
        v, err = lib(VDI, fh, parent) if spec.get("parent_positional") else lib(VDI, fh, parent=parent)
        lay = Overlay([lay, play], spec["disk_size"])
    else:
        v, err = lib(VDI, fh)
    if err:
        out.fail(err.sig("vdi-open"), f"VDI() raised {err.describe()}")
        return out
    if v.size != spec["disk_size"]:
        out.fail("mismatch|vdi-size", f"size {v.size} != {spec['disk_size']}")
    check_reads(out, v, lay, spec["requests"], "vdi", fault=spec.get("fault"), fault_fh=fh)
    if spec.get("via_minimal") in ("reopen", "shared", "tempfile") and not spec.get("parent"):
        from hv.core import also_minimal

        also_minimal(out, spec, fh, VDI, lay, spec["requests"], "vdi")
    elif spec.get("via_minimal") and not spec.get("parent") and not out.failures and fh.size <= (4 << 20):
        # the same image through a file object that only has read / seek / tell / close
        from hv.core import MinimalHandle

        out.cls("via-minimal-handle")
        v3, err = lib(VDI, MinimalHandle(fh.materialize(4 << 20), seek_returns_none=spec["via_minimal"] == "seek-none"))
        if err:
            out.fail(err.sig("vdi-minimal-open"), f"VDI(minimal file object) raised {err.describe()}")
        else:
            check_reads(out, v3, lay, spec["requests"][:4], "vdi-minimal")
    if spec.get("via_gzip") and not spec.get("parent") and not out.failures:
        # the same image behind gzip.open(): a handle with a descriptor of its own that belongs to other bytes
        from hv.core import gzip_handle

        gz, cleanup = gzip_handle(fh)
        if gz is not None:
            try:
                out.cls("via-gzip-handle")
                v2, err = lib(VDI, gz)
                if err:
                    out.fail(err.sig("vdi-gzip-open"), f"VDI(gzip handle) raised {err.describe()}")
                else:
                    check_reads(out, v2, lay, spec["requests"][:4], "vdi-gzip")
            finally:
                cleanup()
    return out
