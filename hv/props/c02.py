"""C02 — VMDK: every byte range of a sparse/flat extent reads as guest content."""
from __future__ import annotations

from hypothesis import strategies as st

from hv import strat
from hv.builders import vmdk as bvmdk
from hv.core import DEBUG_LOG_ENV, Outcome, check_reads, lib

ID = "C02"
RULE = (
    "Hypothesis draws VMDK extent specs of four kinds — hosted sparse KDMV (header- or footer-located grain directory, "
    "redundant GD, embedded descriptor, numGTEsPerGT 512, other powers of two and 6/96/100/500, grain 8..2048 sectors, zero-grain GTEs, "
    "stream-optimized deflate grains with/without embedded LBA, zlib levels 0/1/6/9, content from incompressible (multi-"
    "sector grain headers) to a single byte value or zero-prefixed (shortest streams)), SE-sparse grain tables of 1..64 and 3/5 sectors, ESX COWD, SE-sparse (all four GTE types, grain indices >= 4096 so both halves of the scrambled index "
    "matter) and flat — with any capacity (not a multiple of the grain or of 16 sectors, > 128 GD entries, > 2^32 sectors), "
    "sparse described grain sets, empty grain tables, physical placement permutations with gaps; requests biased to "
    "described-grain boundaries and the tail. VMDK(fh).read and read_sectors must equal the model. Non-trivial = a request "
    "spans >= 2 grains of different kind or non-adjacent physical position, or touches the last partial grain or the tail "
    "past the last 16-sector multiple."
    " Embedded descriptors that fill their area to the last byte (any header attribute last, with or without a final newline); images also opened behind gzip.open() on a real file, through a minimal file object, or by a second reader on the same handle after the first was dropped; a second process variant runs with the package's debug logging switched on."
)
RULE += ' Round 10: transient OSError then retry; content flavours; two readers over one handle; anonymous temp-file handles.'
ASSUMPTIONS = [
    "allocated grains live at sector >= 2 (GTE 0/1 are the unallocated/zero sentinels of the format)",
    "flat extents are opened directly (no descriptor), so their first bytes are never a sparse magic or '# Di'",
]


def budget(tier):
    return 10000 if tier == "quick" else 50000


VARIANT_DISTINCT_SEEDS = True


def variants(tier):
    # the module's logging switch (read at import time) must not change what is read
    return [{"name": "default", "env": {}, "shards": 12},
            {"name": "debug-logging", "env": DEBUG_LOG_ENV, "args": {"budget_scale": 0.2}, "shards": 4}]


@st.composite
def extent_spec(draw, tier="quick", kind=None, layer=0, capacity=None, allow_compressed=True, child=False):
    """`capacity` fixes the sector count (multi-extent / chains).  `child`: unallocated grains fall through to a parent."""
    kind = kind or draw(st.sampled_from(["kdmv", "kdmv", "kdmv", "cowd", "sesparse", "sesparse", "flat"]))
    spec = {"kind": kind, "layer": layer}
    if kind == "flat":
        cap = capacity or draw(st.one_of(st.integers(1, 64), st.integers(1, 9000)))
        spec.update(capacity=cap, holes=draw(st.lists(st.integers(0, 4), max_size=2, unique=True)))
        # a raw disk whose first bytes look like a script or a comment (only "# Di", the descriptor's own first bytes, is excluded)
        head = draw(st.sampled_from([None, None, None, "#!/bin/sh\necho hi\n", "\n\n# comment\n", "#", "   #x", "# disk", "KDM", "COW"]))
        if head:
            spec["head"] = head
        return spec
    if kind == "kdmv":
        grain = draw(st.sampled_from([128, 128, 8, 16, 64, 2048, 32, 256, 512, 1024]))
        # numGTEsPerGT is 512 in files VMware writes; the field itself allows any count, powers of two or not
        gtes = draw(st.sampled_from([512, 512, 512, 16, 64, 128, 2048, 6, 96, 100, 500]))
        compressed = allow_compressed and draw(st.integers(0, 2)) == 0
        spec.update(
            gtes=gtes, compressed=compressed, zero_flag=draw(st.booleans()), redundant=draw(st.sampled_from([False, False, True])),
            gt_reverse=draw(st.booleans()), gd_after_gts=draw(st.booleans()),
        )
        if compressed:
            spec.update(embedded_lba=draw(st.sampled_from([True, True, False])), footer=draw(st.sampled_from([True, True, False])),
                        cmix=draw(st.integers(0, 4)), zlevel=draw(st.sampled_from([6, 6, 1, 0, 9])),
                        version=draw(st.sampled_from([3, 3, 1, 2])))  # the 1.1 format document describes compressed extents with version 1
            grain = min(grain, 256)
            fit = draw(st.integers(0, 3))
            if fit == 3:
                # marker + deflate stream fill exactly a whole number of sectors, for some grains exactly the grain's own size, so
                # that consecutive grains are also physically consecutive at a distance of one grain (run merging)
                grain = min(grain, 16)
                hdr = 12 if spec["embedded_lba"] else 4
                spec["ctargets"] = [grain * 512 - hdr, grain * 512 - hdr - 1, grain * 512 - hdr, (grain - 1) * 512 - hdr, grain * 512 - hdr + 1]
                spec["zlevel"] = 6
                spec["fit_exact"] = True
            elif fit == 0:
                # deflate streams sized around the 512-byte sector boundaries of header + data
                spec["ctargets"] = draw(st.lists(st.one_of(st.integers(494, 518), st.integers(1006, 1030), st.integers(20, 600)),
                                                 min_size=1, max_size=6))
                grain = min(grain, 64)
        else:
            spec.update(meta_first=draw(st.sampled_from([True, True, False])), version=draw(st.sampled_from([1, 1, 2])))
    elif kind == "cowd":
        grain = draw(st.sampled_from([1, 8, 16, 128, 128, 2, 64]))
        gtes = 4096
        spec.update(gd_offset=draw(st.sampled_from([4, 4, 5, 100])), gd_extra=draw(st.sampled_from([0, 0, 1])), gt_reverse=draw(st.booleans()))
    else:
        grain = draw(st.sampled_from([8, 8, 16, 128, 1]))
        gt_sectors = draw(st.sampled_from([64, 64, 1, 8, 3, 5]))
        gtes = gt_sectors * 64
        spec.update(gt_sectors=gt_sectors, gd_slack=draw(st.sampled_from([0, 0, 1])), gt_reverse=draw(st.booleans()),
                    gt_slot_shift=draw(st.sampled_from([0, 0, 3])),
                    index_base=draw(st.sampled_from([0, 0, 4090, 4096, 1 << 20, (1 << 36) + 5])), gd_gap=draw(st.sampled_from([0, 2])),
                    gt_gap=draw(st.sampled_from([0, 5])))
    if capacity is None:
        # huge capacities only where the (eagerly loaded) grain directory stays <= 2^17 entries
        huge = [(1 << 32) // grain + 5] if gtes * grain >= (1 << 15) else []
        big = {"kdmv": [129 * gtes + 3] + huge, "cowd": [gtes + 1], "sesparse": [3 * gtes] + huge}[kind]
        ng = draw(st.one_of(st.integers(1, 6), st.integers(1, 40), st.sampled_from([gtes - 1, gtes, gtes + 1, 2 * gtes + 1] + big)))
        ng = max(1, ng)
        last = draw(st.one_of(st.just(grain), st.integers(1, grain)))
        cap = (ng - 1) * grain + last
        if kind == "cowd":
            cap = min(cap, (1 << 32) - 1)
    else:
        cap = capacity
    ng = (cap + grain - 1) // grain
    desc = set(draw(strat.sparse_subset(ng, 20)))
    for g in (0, gtes - 1, gtes, gtes + 1, ng - 1, ng - 2):
        if 0 <= g < ng and draw(st.booleans()):
            desc.add(g)
    kinds_pool = ["a", "a", "a", "a"]
    if kind == "kdmv" and spec["zero_flag"]:
        kinds_pool += ["z", "z"]
    if kind == "sesparse":
        kinds_pool += ["z", "z", "f"]
    desc = sorted(desc)
    kinds = [draw(st.sampled_from(kinds_pool)) for _ in desc]
    alloc = [g for g, k in zip(desc, kinds) if k == "a"]
    slots = dict(zip(alloc, draw(strat.placement(len(alloc)))))
    ngd = (cap + gtes * grain - 1) // (gtes * grain)
    spec.update(
        capacity=cap, grain=grain,
        grains=[[g, k, slots.get(g, 0)] for g, k in zip(desc, kinds)],
        present_gts=draw(st.lists(st.integers(0, max(0, min(ngd, 300) - 1)), max_size=2, unique=True)),
        pad=draw(st.sampled_from([0, 0, 1, 3])), data_base=draw(st.sampled_from([0, 0, 2, 1000])),
    )
    if kind == "kdmv" and draw(st.integers(0, 3)) == 0:
        spec["descriptor"] = bvmdk.descriptor_text({"extents": [{"sectors": cap, "type": "SPARSE", "file": "self.vmdk"}],
                                                    "create_type": "monolithicSparse", "ddb": {"ddb.adapterType": "lsilogic"}})
        spec["desc_gap"] = draw(st.sampled_from([0, 0, 3]))
    return spec


def unit_bytes(spec):
    return spec.get("grain", 2048) * 512


def request_points(spec):
    u = unit_bytes(spec)
    pts = []
    for g, _k, _s in spec.get("grains", []):
        pts += [g * u, (g + 1) * u]
    gtes = spec.get("gtes") or (spec.get("gt_sectors", 64) * 64 if spec["kind"] == "sesparse" else 4096)
    pts.append(gtes * u)
    return pts


@st.composite
def strategy_(draw, tier):
    spec = draw(extent_spec(tier))
    size = spec["capacity"] * 512
    spec["requests"] = draw(strat.requests(size, unit_bytes(spec), count=6, points=request_points(spec), whole_limit=4 << 20))
    spec["via_minimal"] = draw(strat.minimal_handle())
    spec["fault"] = draw(strat.fault())
    spec["flavours"] = draw(st.booleans())
    spec["via_gzip"] = draw(st.integers(0, 3 if spec["kind"] == "flat" else 11)) == 0
    if spec.get("descriptor") and draw(st.integers(0, 1)) == 0:
        # the embedded descriptor fills its area to the last byte (no NUL behind it); the header attributes may come in any order
        # and the last line need not end in a newline
        text = spec["descriptor"]
        last = draw(st.sampled_from(["parentCID=ffffffff", "parentCID=ffffffff", "CID=fffffffe", 'createType="monolithicSparse"']))
        body = text.replace(last + "\n", "", 1)
        tail = last + draw(st.sampled_from(["", "", "\n"]))
        k = -(-(len(body) + len(tail) + 2) // 512)
        text = body + "#" + "x" * (k * 512 - len(body) - len(tail) - 2) + "\n" + tail
        if last + "\n" in spec["descriptor"] and len(text) == k * 512:
            spec["descriptor"], spec["desc_sectors"], spec["desc_fit"] = text, k, True
    spec["sector_requests"] = [[o // 512, max(1, min(n, 1 << 20) // 512)] for o, n in spec["requests"][:2]]
    return spec


def strategy(tier):
    return strategy_(tier)


def nontrivial(spec) -> bool:
    size = spec["capacity"] * 512
    if spec["kind"] == "flat":
        return any(o + n > (size // 8192) * 8192 for o, n in spec["requests"]) and size % 8192 != 0
    u = unit_bytes(spec)
    info = {g: (k, s) for g, k, s in spec["grains"]}
    tail16 = (spec["capacity"] // 16) * 16 * 512
    for off, n in spec["requests"]:
        n = min(n, size - off)
        if n <= 0:
            continue
        if off + n > tail16 and size > tail16:
            return True
        g0, g1 = off // u, (off + n - 1) // u
        if size % u and g1 == size // u:
            return True
        for g in range(g0, min(g1, g0 + 64)):
            a, b = info.get(g), info.get(g + 1)
            if (a is None) != (b is None):
                return True
            if a and b and (a[0] != b[0] or (a[0] == "a" and b[1] != a[1] + 1)):
                return True
    return False


def tag_of(spec) -> str:
    t = spec["kind"]
    if t == "kdmv":
        if spec.get("compressed"):
            t += "-stream" + ("" if spec.get("embedded_lba", True) else "-nolba") + ("-footer" if spec.get("footer") else "")
        if spec.get("gtes") != 512:
            t += "-gtes"
    return t


def check(spec) -> Outcome:
    from dissect.hypervisor.disk.vmdk import VMDK

    out = Outcome()
    fh, lay, meta = bvmdk.build(spec)
    out.nontrivial = nontrivial(spec)
    tag = tag_of(spec)
    size = spec["capacity"] * 512
    out.cls(tag, "cap%16!=0" if spec["capacity"] % 16 else "cap%16==0", "cap>2^32" if spec["capacity"] > 1 << 32 else "cap<=2^32")
    if meta.get("gd_entries", 0) > 128:
        out.cls("gd>128")
    if spec.get("descriptor"):
        out.cls("embedded-descriptor" + ("-exact-fit" if spec.get("desc_fit") else ""))
    v, err = lib(VMDK, fh)
    if err:
        out.fail(err.sig(tag + "-open"), f"VMDK() raised {err.describe()}")
        return out
    if v.size != size:
        out.fail(f"mismatch|{tag}-size", f"size {v.size} != {size}")
    check_reads(out, v, lay, spec["requests"], tag, fault=spec.get("fault"), fault_fh=fh)
    from hv.core import also_minimal

    also_minimal(out, spec, fh, VMDK, lay, spec["requests"], tag)
    from hv.core import also_gzip

    also_gzip(out, spec, fh, VMDK, lay, spec["requests"], tag)
    for s, c in spec.get("sector_requests", []):
        c = min(c, spec["capacity"] - s)
        if c <= 0:
            continue
        got, err = lib(v.read_sectors, s, c)
        if err:
            out.fail(err.sig(tag + "-sectors"), f"read_sectors({s}, {c}) raised {err.describe()}")
        elif got != lay.read_at(s * 512, c * 512):
            out.fail(f"mismatch|{tag}-sectors", f"read_sectors({s}, {c}) differs from model")
    return out
