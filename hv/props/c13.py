"""C13 — Lazy access: I/O proportional to the request, correct at multi-terabyte scale."""
from __future__ import annotations

from hypothesis import strategies as st

from hv import strat
from hv.builders import hdd as bhdd
from hv.builders import qcow2 as bq
from hv.builders import vdi as bvdi
from hv.builders import vhd as bvhd
from hv.builders import vhdx as bvhdx
from hv.builders import vmdk as bvmdk
from hv.core import Outcome, lib, read_at, describe_mismatch
from hv.sparse import BudgetExceeded

import os
import shutil
import tempfile

ID = "C13"
CLEANUP = []


def _scratch():
    root = os.environ.get("VERIF_SCRATCH") or ("/dev/shm" if os.path.isdir("/dev/shm") else None)
    from hv.core import case_dir

    return case_dir("c13", root)


def cleanup():
    while CLEANUP:
        d, fh = CLEANUP.pop()
        try:
            fh.close()
        except Exception:  # noqa: BLE001
            pass
        shutil.rmtree(d, ignore_errors=True)


TECHNIQUE = ("property-based testing on a counting sparse virtual file: content oracle at extreme offsets, an I/O budget derived "
             "from the metadata the builder wrote, and a metamorphic relation (100x more allocated data elsewhere must not "
             "change the I/O)")
RULE = (
    "For each of VDI, HDS, VHD, VHDX, VMDK (hosted sparse, SE-sparse) and QCOW2, Hypothesis draws a scale spec: virtual size "
    "2^33..2^46 bytes (within the format's limits), mapping tables and allocated units at file offsets beyond 2^32 bytes "
    "(and 2^32 sectors where the format can express it), a few described units, and small requests at those extreme "
    "offsets. Three oracles on a SparseFile that counts bytes read: (1) content equals the model; (2) bytes read by open+reads "
    "<= M + 2*(len + 2*align) per request (4*(len + 2*unit) where a whole compressed unit must be fetched) + 64 KiB, M = all mapping metadata the builder wrote; (3) metamorphic: "
    "the same image with 2 000-5 000 additional allocated units outside the requested ranges must read the same bytes with "
    "io_large <= io_small + max(64 KiB, io_small/4) and must never touch a byte of the added units. Non-trivial = the added "
    "data is >= 100x (M + requested bytes)... counted when at least one touched structure lies beyond 2^32."
    ' VHD metadata placed beyond 4 GiB; most compressible grain classes; small requests alternating between the first and last described unit.'
)
ASSUMPTIONS = [
    "eagerly loaded directory-level tables (VDI block map, HDS BAT, VMDK grain directory, QCOW2 L1) count as mapping metadata",
    "virtual sizes are bounded per format so that eagerly loaded tables stay <= 8 MiB (cost bound of the harness)",
]

FORMATS = ["vdi", "hds", "vhd", "vhdx", "vhdx-diff", "kdmv", "kdmv-stream", "sesparse", "qcow2"]
ALIGN = 8192


def budget(tier):
    return 700 if tier == "quick" else 30000


def pick(draw, pool, k):
    """k distinct values from pool (order drawn); the pool is padded with neighbours if it is too small."""
    pool = sorted(set(max(0, v) for v in pool))
    extra = 1
    while len(pool) < k:
        pool = sorted(set(pool) | {pool[0] + 11 * extra})
        extra += 1
    return list(draw(st.permutations(pool)))[:k]


@st.composite
def scale_spec(draw, tier):
    fmt = draw(st.sampled_from(FORMATS))
    nbulk = draw(st.sampled_from([2000, 3000, 5000] if tier == "quick" else [2000, 5000, 20000]))
    few = draw(st.integers(1, 4))
    spec = {"fmt": fmt, "nbulk": nbulk}
    if fmt == "vdi":
        bits = draw(st.sampled_from([20, 20, 22, 16]))
        nb = draw(st.sampled_from([1 << 13, 1 << 16, 1 << 20, (1 << 20) - 3]))
        bs = 1 << bits
        idx = sorted(set(draw(st.lists(st.integers(0, nb - 1), min_size=few, max_size=few)) + [nb - 1]))
        phys = pick(draw, [4096, 4097, 1 << 20, (1 << 22) - 1, 5, 70000], len(idx))
        spec["image"] = {"block_size": bs, "nblocks": nb, "disk_size": nb * bs - draw(st.sampled_from([0, 512, bs - 512])),
                         "blocks_offset": 512, "data_offset": ((512 + 4 * nb + 511) // 512) * 512 + draw(st.sampled_from([0, 512 << 10])),
                         "alloc": [[a, b] for a, b in zip(idx, phys)], "zero": [], "layer": 0}
        unit, size = bs, spec["image"]["disk_size"]
        units = idx
    elif fmt == "hds":
        cs = draw(st.sampled_from([2048, 2048, 512, 4096, 1 << 16]))
        ncl = draw(st.sampled_from([1 << 14, 1 << 18, 1 << 20]))
        version = draw(st.sampled_from([2, 2, 1]))
        idx = sorted(set(draw(st.lists(st.integers(0, ncl - 1), min_size=few, max_size=few)) + [ncl - 1]))
        first = ((64 + 4 * ncl + 511) // 512 + cs - 1) // cs
        top = (1 << 32) // cs - 2 if version == 1 else (1 << 31)
        fcl = pick(draw, [first + 1, top - 1, top // 2, (1 << 23) // cs + first, first + 77], len(idx))
        spec["image"] = {"version": version, "cluster_sectors": cs, "size_sectors": ncl * cs - draw(st.sampled_from([0, 1, cs - 1])) if version == 2 or ncl * cs < 1 << 32 else (1 << 32) - 1,
                         "bat_entries": ncl, "first_block_offset": first * cs, "in_use": False,
                         "alloc": [[a, b * cs] for a, b in zip(idx, fcl)], "layer": 0}
        unit, size = cs * 512, spec["image"]["size_sectors"] * 512
        units = idx
    elif fmt == "vhd":
        bs = 1 << draw(st.sampled_from([21, 21, 20, 16]))
        nb = draw(st.sampled_from([1 << 12, 1 << 16, 1 << 19]))
        size = min(nb * bs, ((1 << 41) // bs) * bs) - draw(st.sampled_from([0, 512]))
        nb = (size + bs - 1) // bs
        idx = sorted(set(draw(st.lists(st.integers(0, nb - 1), min_size=few, max_size=few)) + [nb - 1]))
        span = bvhd.bitmap_sectors(bs) + bs // 512
        bat_len = ((4 * nb + 511) // 512) * 512
        base_sec = (512 + 1024 + bat_len) // 512 + 1
        hi = ((1 << 32) - 2 - base_sec) // span - 1
        slots = pick(draw, [0, 3, hi, hi // 2, (1 << 23) // span + 1, 99], len(idx))
        alloc = [[a, base_sec + s * span] for a, s in zip(idx, slots)]
        # the dynamic header and the BAT are found through 64-bit offsets: in a grown image they may sit (far) beyond 4 GiB
        meta_at = draw(st.sampled_from([512, 512, 512, 0xFFFFFE00, 1 << 32, (5 << 30) + 512, 3 << 39]))
        if any(so * 512 < meta_at + 1024 + bat_len + 512 and meta_at < (so + span) * 512 for _a, so in alloc):
            meta_at = 512
        spec["image"] = {"kind": "dynamic", "size": size, "legacy_footer": False, "block_size": bs, "dyn_offset": meta_at,
                         "table_offset": meta_at + 1024, "alloc": alloc, "layer": 0}
        spec["slot_base"] = [base_sec, span]
        unit = bs
        units = idx
    elif fmt in ("vhdx", "vhdx-diff"):
        bs = 1 << draw(st.sampled_from([25, 28, 20, 21]))
        ss = draw(st.sampled_from([512, 4096]))
        size = draw(st.sampled_from([1 << 33, 1 << 40, 1 << 46, (1 << 46) - ss, (1 << 42) + bs + ss]))
        nb = (size + bs - 1) // bs
        if nb > 1 << 22:  # keep the (lazily read) BAT region itself below 64 MiB of virtual table
            size = (1 << 22) * bs - ss
            nb = (size + bs - 1) // bs
        idx = sorted(set(draw(st.lists(st.integers(0, nb - 1), min_size=few, max_size=few)) + [nb - 1]))
        nent = bvhdx.geometry({"block_size": bs, "sector_size": ss, "size": size})[4]
        bat_mb = (nent * 8 + bvhdx.MB - 1) // bvhdx.MB
        far_meta = draw(st.sampled_from([0, 0, 8192]))
        meta_mb = 2 + far_meta
        bat_off = meta_mb + 1
        base = bat_off + bat_mb + 1
        bmb = bs // bvhdx.MB
        hi = ((1 << 44) - 1 - base) // bmb - 1
        slots = pick(draw, [0, 1, hi, (1 << 12) // bmb + 3, (1 << 31) // bmb, (1 << 40) // bmb], len(idx))
        spec["image"] = {"block_size": bs, "sector_size": ss, "size": size, "seq": [3, 9], "regions": {"metadata": meta_mb, "bat": bat_off},
                         "region_order": "mb", "meta_order": [0, 1, 2, 3, 4], "meta_gap": 0,
                         "blocks": [[a, 6, base + s * bmb] for a, s in zip(idx, slots)], "layer": 0}
        spec["slot_base"] = [base, bmb]
        if fmt == "vhdx-diff":
            # differencing child: described blocks are partially present; the (all-zero) parent is a small real file
            from hv.props.c07 import sector_runs

            cr = ((1 << 23) * ss) // bs
            nent = bvhdx.geometry({"block_size": bs, "sector_size": ss, "size": size, "has_parent": True})[4]
            bat_mb = (nent * 8 + bvhdx.MB - 1) // bvhdx.MB
            base = bat_off + bat_mb + 1
            spec["slot_base"] = [base, bmb]
            spb = bs // ss
            partial = {str(a): draw(sector_runs(min(spb, 4096))) for a in idx}
            chunks = sorted({a // cr for a in idx})
            sb_slots = pick(draw, [2, 5, hi - 3, (1 << 33) // bmb, 9, 12, 15], len(chunks))
            spec["image"].update(has_parent=True, locator=[["relative_path", ".\\parent.vhdx"], ["parent_linkage", "{0}"]],
                                 blocks=[[a, 7, base + s * bmb] for a, s in zip(idx, slots)], partial=partial,
                                 sb=[[c, base + s * bmb] for c, s in zip(chunks, sb_slots)], meta_order=[0, 1, 2, 3, 4, 5])
            spec["request_runs"] = [[a, partial[str(a)][0]] for a in idx if partial[str(a)]]
        unit = bs
        units = idx
    elif fmt in ("kdmv", "sesparse", "kdmv-stream"):
        if fmt == "kdmv-stream":
            grain, gtes = 128, 512
            cap = draw(st.sampled_from([1 << 24, (1 << 32) + grain + 3, 1 << 34]))
            e = {"kind": "kdmv", "gtes": gtes, "compressed": True, "footer": True, "embedded_lba": draw(st.booleans()), "zero_flag": False,
                 "redundant": False, "version": 3, "cmix": draw(st.integers(0, 4)),
                 "data_base": draw(st.sampled_from([(1 << 31), (1 << 32) - (1 << 26), 1 << 24]))}
            max_slot = 200
            spec["nbulk"] = 300
        elif fmt == "kdmv":
            grain, gtes = draw(st.sampled_from([(128, 512), (128, 512), (2048, 512), (64, 2048)]))
            cap = draw(st.sampled_from([1 << 24, (1 << 32) + grain + 3, 1 << 34]))
            e = {"kind": "kdmv", "gtes": gtes, "compressed": False, "zero_flag": False, "redundant": draw(st.booleans()), "meta_first": True,
                 "version": 1, "data_base": draw(st.sampled_from([0, (1 << 31), (1 << 32) - (1 << 24)]))}
            max_slot = ((1 << 32) - 2 - max(e["data_base"], 1 << 22)) // grain - 8000
        else:
            grain, gt_sectors = 8, 64
            gtes = 4096
            cap = draw(st.sampled_from([1 << 24, (1 << 32) + 11, 1 << 34]))
            e = {"kind": "sesparse", "gt_sectors": gt_sectors, "gd_slack": 0, "index_base": draw(st.sampled_from([0, 4096, 1 << 30, 1 << 36])),
                 "data_base": 0}
            max_slot = 1 << 20
        ng = (cap + grain - 1) // grain
        idx = sorted(set(draw(st.lists(st.integers(0, ng - 1), min_size=few, max_size=few)) + [ng - 1]))
        slots = pick(draw, [0, 1, 7, max_slot, max_slot // 2, 4097] if fmt != "kdmv-stream" else [0, 1, 2, 5, 9, 30], len(idx))
        e.update(capacity=cap, grain=grain, grains=[[a, "a", s] for a, s in zip(idx, slots)], present_gts=[], pad=0, layer=0)
        spec["image"] = e
        unit, size = grain * 512, cap * 512
        units = idx
        spec["max_slot"] = max_slot
    else:  # qcow2
        cb = draw(st.sampled_from([16, 16, 21, 12]))
        cs = 1 << cb
        size = draw(st.sampled_from([1 << 33, 1 << 40, 1 << 46, (1 << 44) + cs + 512]))
        l2e = cs // 8
        if size // (l2e * cs) > 1 << 20:
            size = (1 << 20) * l2e * cs
        ng = (size + cs - 1) // cs
        idx = sorted(set(draw(st.lists(st.integers(0, ng - 1), min_size=few, max_size=few)) + [ng - 1]))
        kinds = [draw(st.sampled_from(["n", "n", "c", "Z"])) for _ in idx]
        slots = pick(draw, list(range(0, 41, 5)), len(idx))
        spec["image"] = {"version": 3, "cluster_bits": cb, "size": size, "header_length": 112, "ext_l2": False, "data_file": False,
                         "clusters": [[a, k, s, 0 if k == "c" else None] for a, k, s in zip(idx, kinds, slots)], "l2_interleave": False,
                         "l2_slots": {}, "l2_reverse": False, "meta_order": draw(st.permutations(["l1", "refcount", "snap", "l2"])),
                         "meta_gap": 0, "far_base": draw(st.sampled_from([1 << 32, 1 << 40, min(1 << 50, 1 << (62 - (cb - 8) - 2)), 0])), "copied": True, "l1_extra": 0,
                         "comp_shift": 7, "cgaps": [0, 300], "comp_far": 0, "layer": 0}
        # the same image read through the view of an internal snapshot that shares the active L1 table
        if draw(st.sampled_from([False, False, True])):
            spec["image"]["snapshots"] = [{"id": "1", "name": "view", "extra_size": 16, "clusters": [], "share_active": True}]
            spec["image"]["via_snapshot"] = True
        unit = cs
        units = idx
    spec["unit"] = unit
    spec["size"] = size
    # requests: small, at the described units (incl. the very last one) and around them
    reqs = []
    for u in units[:4] + [units[-1]]:
        off = u * unit + draw(st.sampled_from([0, 0, 511, 512, unit - 600, unit // 2]))
        n = draw(st.sampled_from([1, 512, 4096, 8192, 65536, 100000]))
        off = max(0, min(off, size - 1))
        reqs.append([off, n])
    reqs.append([draw(st.integers(0, size - 1)), draw(st.sampled_from([512, 70000]))])
    for a, (fsec, cnt) in spec.get("request_runs", [])[:3]:
        ss_ = spec["image"]["sector_size"]
        reqs.append([a * unit + max(0, fsec - 1) * ss_, (cnt + 2) * ss_])
    if draw(st.booleans()):
        # the first requests once more, one sector on: mapping tables fetched for the first pass are not fetched again
        reqs += [[min(size - 1, off + 512), n] for off, n in reqs[:3]]
        spec["repeat"] = True
    if len(units) >= 2 and draw(st.integers(0, 2)) != 0:
        # small requests that alternate between the first and the last described unit (mapped by tables far apart): whatever a
        # reader keeps of the mapping tables, it must not fetch them anew for every change of region
        a_, b_ = units[0] * unit, units[-1] * unit
        for i in range(3):
            reqs += [[min(size - 1, a_ + 1024 * (i + 1)), 512], [min(size - 1, b_ + 512 * i), 512]]
        spec["alternate"] = True
    spec["requests"] = reqs
    spec["bulk_first"] = draw(st.integers(0, 1 << 30))
    return spec


def strategy(tier):
    return scale_spec(tier)


def unit_count(spec):
    return (spec["size"] + spec["unit"] - 1) // spec["unit"]


def bulk_range(spec):
    """A run of `nbulk` logical units that no request comes near and that holds no described unit."""
    total = unit_count(spec)
    n = spec["nbulk"]
    if total < 3 * n + 64:
        return None
    unit = spec["unit"]
    busy = set()
    for off, ln in spec["requests"]:
        a = off // unit - 40
        b = (off + ln + 2 * max(ALIGN, unit)) // unit + 40
        busy.add((a, b))
    described = _described(spec)
    first = spec["bulk_first"] % (total - n - 1)
    for _ in range(64):
        lo, hi = first, first + n
        clash = any(a < hi and lo < b for a, b in busy) or any(lo - 2 <= u < hi + 2 for u in described)
        if not clash:
            return first
        first = (first + n + 97) % (total - n - 1)
    return None


def _described(spec):
    im = spec["image"]
    f = spec["fmt"]
    if f in ("vdi", "hds", "vhd"):
        return [a for a, _ in im["alloc"]]
    if f in ("vhdx", "vhdx-diff"):
        return [b[0] for b in im["blocks"]]
    if f in ("kdmv", "sesparse", "kdmv-stream"):
        return [g[0] for g in im["grains"]]
    return [c[0] for c in im["clusters"]]


def with_bulk(spec, first):
    """Image spec with nbulk more allocated units (logical first.., physically contiguous behind everything else)."""
    im = dict(spec["image"])
    n = spec["nbulk"]
    f = spec["fmt"]
    if f == "vdi":
        s0 = max(p for _, p in im["alloc"]) + 8
        im["alloc"] = im["alloc"] + [[first + i, s0 + i] for i in range(n)]
    elif f == "hds":
        cs = im["cluster_sectors"]
        lim = (1 << 32) // cs - 2 if im["version"] == 1 else (1 << 32) - 2
        used = sorted(b // cs for _, b in im["alloc"])
        s0 = im["first_block_offset"] // cs + 200
        while any(s0 - 2 <= u <= s0 + n + 2 for u in used):
            s0 += n + 300
        if s0 + n >= lim:
            return None
        im["alloc"] = im["alloc"] + [[first + i, (s0 + i) * cs] for i in range(n)]
    elif f == "vhd":
        base_sec, span = spec["slot_base"]
        used = sorted((so - base_sec) // span for _, so in im["alloc"])
        if im["dyn_offset"] > 512:  # header and BAT somewhere inside the data area
            nb_ = (im["size"] + im["block_size"] - 1) // im["block_size"]
            used += list(range((im["dyn_offset"] // 512 - base_sec) // span - 1, ((im["table_offset"] + 4 * nb_) // 512 - base_sec) // span + 2))
        s0 = 1000
        while any(s0 - 2 <= u <= s0 + n + 2 for u in used):
            s0 += n + 300
        if base_sec + (s0 + n) * span >= (1 << 32) - 2:
            return None
        im["alloc"] = im["alloc"] + [[first + i, base_sec + (s0 + i) * span] for i in range(n)]
    elif f in ("vhdx", "vhdx-diff"):
        base, bmb = spec["slot_base"]
        used = sorted([(b[2] - base) // bmb for b in im["blocks"]] + [(c[1] - base) // bmb for c in im.get("sb", [])])
        s0 = 50
        while any(s0 - 2 <= u <= s0 + n + 2 for u in used):
            s0 += n + 300
        im["blocks"] = im["blocks"] + [[first + i, 6, base + (s0 + i) * bmb] for i in range(n)]
    elif f in ("kdmv", "sesparse", "kdmv-stream"):
        used = sorted(g[2] for g in im["grains"])
        s0 = 100
        while any(s0 - 2 <= u <= s0 + n + 2 for u in used):
            s0 += n + 300
        if s0 + n >= spec["max_slot"] + 7000 and f != "kdmv-stream":
            return None
        im["grains"] = im["grains"] + [[first + i, "a", s0 + i] for i in range(n)]
    else:
        im["clusters"] = sorted(im["clusters"] + [[first + i, "n", 50 + i, None] for i in range(n)])
    return im


def build_and_open(fmt, im):
    """-> (list of SparseFiles, stream | None, err, model, meta)"""
    if fmt == "vdi":
        from dissect.hypervisor.disk.vdi import VDI

        fh, lay, meta = bvdi.build(im)
        s, err = lib(VDI, fh)
        return [fh], s, err, lay, meta
    if fmt == "hds":
        from dissect.hypervisor.disk.hdd import HDS

        fh, lay, meta = bhdd.build(im)
        s, err = lib(HDS, fh)
        return [fh], s, err, lay, meta
    if fmt == "vhd":
        from dissect.hypervisor.disk.vhd import VHD

        fh, lay, meta = bvhd.build(im)
        s, err = lib(VHD, fh)
        return [fh], s, err, lay, meta
    if fmt == "vhdx":
        from dissect.hypervisor.disk.vhdx import VHDX

        fh, lay, meta = bvhdx.build(im)
        s, err = lib(VHDX, fh)
        return [fh], s, err, lay, meta
    if fmt == "vhdx-diff":
        from dissect.hypervisor.disk.vhdx import VHDX

        d = _scratch()
        parent = dict(im, has_parent=False, blocks=[], partial={}, sb=[], locator=[], meta_order=[0, 1, 2, 3, 4])
        pfh, _pl, _pm = bvhdx.build(parent)
        pfh.write_to(os.path.join(d, "parent.vhdx"))
        fh, lay, meta = bvhdx.build(dict(im, name=os.path.join(d, "child.vhdx")))
        s, err = lib(VHDX, fh)
        if s is not None and s.parent is not None:
            CLEANUP.append((d, s.parent.fh))
        else:
            shutil.rmtree(d, ignore_errors=True)
        from hv.sparse import Overlay

        return [fh], s, err, Overlay([lay], im["size"]), meta
    if fmt in ("kdmv", "sesparse", "kdmv-stream"):
        from dissect.hypervisor.disk.vmdk import VMDK

        fh, lay, meta = bvmdk.build(im)
        s, err = lib(VMDK, fh)
        return [fh], s, err, lay, meta
    from dissect.hypervisor.disk.qcow2 import QCow2

    fh, dfh, bfh, layers, meta = bq.build(im)
    s, err = lib(QCow2, fh)
    if not err and im.get("via_snapshot"):
        s, err = lib(lambda: s.snapshots[0].open())
        meta = dict(meta, metadata_bytes=meta["metadata_bytes"] + meta["l1_size"] * 8)  # the view loads the (shared) L1 table itself
    return [fh], s, err, layers["active"], meta


def io_unit(spec):
    """Smallest amount the format forces a reader to fetch for one touched unit: a whole compressed cluster / grain,
    otherwise nothing beyond the (buffer-aligned) request."""
    f, im = spec["fmt"], spec["image"]
    if f == "qcow2" and any(c[1] == "c" for c in im["clusters"]):
        return 1 << im["cluster_bits"]
    if f == "kdmv-stream":
        return im["grain"] * 512 + 1024
    return 0


def io_budget(spec, meta):
    """All mapping metadata once (a lazy reader needs less; an eager one may load all of it), a small multiple of the
    buffer-aligned request (a whole compressed unit where the format forces it), and 64 KiB of slack."""
    m = meta["metadata_bytes"]
    u = io_unit(spec)
    if u:
        per = sum(4 * (n + 2 * max(ALIGN, u)) for _, n in spec["requests"])
    else:
        per = sum(2 * (n + 2 * ALIGN) for _, n in spec["requests"])
    return m + per + (64 << 10)


def run_once(spec, im, out, tag, budget_bytes=None, forbid=None):
    fhs, s, err, lay, meta = build_and_open(spec["fmt"], im)
    if budget_bytes is None:
        budget_bytes = io_budget(spec, meta)
    # the stream is already open: account for what open() read, then arm the budget for the reads
    used = sum(f.bytes_read for f in fhs)
    if err:
        out.fail(err.sig(tag + "-open"), f"open raised {err.describe()}")
        return None
    if used > budget_bytes:
        out.fail(f"io|{tag}-open", f"open read {used} bytes, budget {budget_bytes} (metadata {meta['metadata_bytes']})")
        return None
    for f in fhs:
        f.budget = budget_bytes + (1 << 20)  # trip fast on scanners; the exact comparison follows
        if forbid:
            f.forbidden = forbid(f, im)
    results = []
    for off, n in spec["requests"]:
        got, err = lib(read_at, s, off, n)
        if err:
            kind = "io" if isinstance(err.exc, BudgetExceeded) else "exc"
            out.fail(f"{kind}|{tag}|{err.kind}|{err.frame}", f"read(off={off:#x}, n={n}) raised {err.describe()}")
            return None
        exp = lay.read_at(off, n)
        if got != exp:
            out.fail(f"mismatch|{tag}", describe_mismatch(off, n, got, exp))
            return None
        results.append(got)
    total = sum(f.bytes_read for f in fhs)
    if total > budget_bytes:
        out.fail(f"io|{tag}", f"open+reads read {total} bytes for {sum(n for _, n in spec['requests'])} requested; budget {budget_bytes} "
                              f"(metadata {meta['metadata_bytes']}, unit {spec['unit']})")
        return None
    touched = [t for f in fhs for t in f.touched_forbidden]
    if touched:
        out.fail(f"io|{tag}-touched-unrelated-data", f"read touched added units outside every request: {touched[:3]}")
        return None
    maxoff = max(f.max_off for f in fhs)
    return {"io": total, "results": results, "meta": meta, "maxoff": maxoff, "file_size": max(f.size for f in fhs)}


def check(spec) -> Outcome:
    try:
        return _check(spec)
    finally:
        cleanup()


def _check(spec) -> Outcome:
    out = Outcome()
    fmt = spec["fmt"]
    tag = f"scale-{fmt}"
    out.cls(tag)
    a = run_once(spec, spec["image"], out, tag)
    if a is None:
        return out
    beyond = a["maxoff"] > 1 << 32
    out.cls("touched>2^32" if beyond else "touched<=2^32", "size>=2^40" if spec["size"] >= 1 << 40 else "size<2^40")
    first = bulk_range(spec)
    if first is None:
        out.cls("no-bulk-room")
        return out
    big = with_bulk(spec, first)
    if big is None:
        out.cls("no-bulk-room")
        return out

    def forbid(f, im):
        # byte ranges of the added units in the file: everything the small image did not contain
        return _added_ranges(spec, im, first)

    allowance = max(64 << 10, a["io"] // 4)
    b = run_once(spec, big, out, tag + "-bulk", budget_bytes=a["io"] + allowance + _table_growth(spec), forbid=forbid)
    if b is None:
        return out
    if b["results"] != a["results"]:
        out.fail(f"mismatch|{tag}-bulk", "adding unrelated allocated units changed the bytes returned")
    added_bytes = spec["nbulk"] * spec["unit"]
    if added_bytes >= 100 * (a["meta"]["metadata_bytes"] + sum(n for _, n in spec["requests"])) or True:
        out.nontrivial = beyond
    return out


def _table_growth(spec):
    """Adding allocated units can bring a second-level mapping table into existence where the small image had none
    (QCOW2 L2 table, VMDK grain table): a request that falls into that table's range then legitimately has to load it.
    Allow one such table per request for the lazily-tabled formats; directory-level tables never grow with allocation."""
    f, im = spec["fmt"], spec["image"]
    n = len(spec["requests"])
    if f == "qcow2":
        return n * (1 << im["cluster_bits"])
    if f in ("kdmv", "kdmv-stream"):
        return n * (im["gtes"] * 4 + 1024)
    if f == "sesparse":
        return n * (im["gt_sectors"] * 512)
    return 0


def _added_ranges(spec, im, first):
    f = spec["fmt"]
    n = spec["nbulk"]
    if f == "vdi":
        s0 = im["alloc"][-n][1]
        return [(im["data_offset"] + s0 * im["block_size"], im["data_offset"] + (s0 + n) * im["block_size"])]
    if f == "hds":
        a = im["alloc"][-n][1] * 512
        return [(a, a + n * im["cluster_sectors"] * 512)]
    if f == "vhd":
        a = im["alloc"][-n][1] * 512
        span = spec["slot_base"][1]
        return [(a, a + n * span * 512)]
    if f in ("vhdx", "vhdx-diff"):
        a = im["blocks"][-n][2] * bvhdx.MB
        return [(a, a + n * im["block_size"])]
    return []  # VMDK / QCOW2: physical position is derived inside the builder; covered by the I/O comparison
