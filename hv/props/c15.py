"""C15 — Encrypted VMX: unlock round-trips and is authenticated."""
from __future__ import annotations

import copy

from hypothesis import strategies as st

from hv.builders import vmxcrypt as bx
from hv.core import Outcome, lib

ID = "C15"
TECHNIQUE = ("property-based round-trip with an inverse builder (PBKDF2 + AES-CBC + HMAC via pycryptodome/hashlib), wrong-passphrase "
             "and exhaustive single-byte tamper enumeration per generated container")
RULE = (
    "Hypothesis draws an encrypted VMX: outer and inner configuration entries (keys any case, values printable incl. '=', '#', "
    "UTF-8), passphrase (any unicode), cipher AES-128/192/256 x MAC HMAC-SHA-1 / HMAC-SHA-1-128 / HMAC-SHA-256 x KDF "
    "PBKDF2-HMAC-SHA-1/256, rounds 1..20000, salt 8..32 bytes, inner content length incl. < 16 bytes and multiples of 16, 1..3 "
    "pairs in the locator list (decoy pairs with other passphrases before/after the real one, optionally with salts under which they "
    "decrypt to chance-valid padding with the real passphrase), ids needing URL quoting; all 18 "
    "cipher x MAC x KDF combinations are also enumerated exhaustively. The builder is the inverse operation. Oracles: (a) "
    "unlock with the passphrase -> attr == outer + inner entries; (b) any other passphrase (incl. a decoy's) -> raises and attr "
    "unchanged; (c) every single-byte alteration (every position of IV, ciphertext, MAC of the wrapped key and of "
    "encryption.data, and of the salt; XOR 1 / 0x80 / drawn) -> raises and attr unchanged. Non-trivial = >= 2 inner entries and "
    "at least one tamper evaluated; distinct by spec."
    ' Passphrases with combining marks / compatibility code points, their NFC/NFD/NFKC/NFKD/casefolded forms tried as wrong passphrases; the dictionary obtained before unlocking must show the unlocked entries.'
)
RULE += ' Round 10: the empty passphrase; a fresh parse of the same text after an unlock must start locked.'
ASSUMPTIONS = [
    "tampering is applied to the decoded binary fields and re-encoded (base64/URL decoders' tolerance is not part of the property)",
    "only the pair that wraps the real key is tampered with: altering an unrelated decoy pair legitimately changes nothing",
]

KEYS = ["displayName", "guestOS", "scsi0:0.fileName", "memsize", "ETHERNET0.address", "annotation", "uuid.bios", ".encoding", "numvcpus",
        "ide1:0.deviceType", "vmci0.present", "x.y.Z", "scsi0:1.fileName", "sata0:0.fileName", "ide1:0.fileName", "nvme0:0.fileName",
        # keys are lower-cased, not case-folded: these stay distinct from one another
        "annotation.Straße", "annotation.STRASSE", "guestinfo.ﬁle", "guestinfo.file", "İstanbul.x", "ǅ.y"]
# incl. characters str.splitlines() breaks on although only "\n" ends a line of the dictionary syntax
VALUE_ALPHABET = "abcXYZ0189 =#:/\\-_.,;%+()[]{}'äß€\U0001F98A\u2028\x85\x0c\x1c"


def budget(tier):
    return 800 if tier == "quick" else 20000


@st.composite
def entries(draw, lo, hi):
    n = draw(st.integers(lo, hi))
    keys = draw(st.lists(st.sampled_from(KEYS), min_size=n, max_size=n, unique_by=lambda k: k.lower()))
    out = []
    for k in keys:
        v = draw(st.text(alphabet=VALUE_ALPHABET, max_size=draw(st.sampled_from([0, 3, 12, 40]))))
        while v != v.strip().strip(' "'):
            v = v.strip().strip(' "')  # the syntax cannot carry white space (of any kind) or quotes at the ends of a value
        out.append([k, v])
    return out


@st.composite
def pair_spec(draw, idx, tamper_heavy):
    return {
        "passphrase": draw(st.sampled_from(["", "", " ", "\t"])) + draw(st.one_of(st.sampled_from(["password", "pässwörd", "p w", "", "cafe\u0301", "\u212bngstro\u0308m", "\u1112\u1161\u11ab", "o\u0323\u0308"]), st.text(min_size=1, max_size=12)))
        + f"#{idx}" + draw(st.sampled_from(["", "", " ", "\n"])),
        "cipher": draw(st.sampled_from(list(bx.KEY_SIZES))), "mac": draw(st.sampled_from(list(bx.MACS))),
        "kdf": draw(st.sampled_from(list(bx.KDFS))),
        "rounds": draw(st.sampled_from([1, 2, 10, 50])) if tamper_heavy else draw(st.one_of(st.sampled_from([1, 1000, 10000, 20000]), st.integers(1, 3000))),
        "salt": draw(st.binary(min_size=8, max_size=32)).hex(), "iv": draw(st.binary(min_size=16, max_size=16)).hex(),
        "id": draw(st.sampled_from(["JTHVQF8/BHU=", "id", "a b/c=d,(e)", "ключ"])),
        "inner_quote": draw(st.sampled_from(["min", "min", "full"])),
    }


@st.composite
def vmx_spec(draw, tier, combo=None):
    npairs = draw(st.sampled_from([1, 1, 2, 3]))
    correct = draw(st.integers(0, npairs - 1))
    pairs = [draw(pair_spec(i, True)) for i in range(npairs)]
    if combo:
        pairs[correct].update(cipher=combo[0], mac=combo[1], kdf=combo[2])
    if draw(st.integers(0, 11)) == 0:
        pairs[correct]["passphrase"] = ""  # the empty string is a password like any other for PBKDF2
    data_cipher = draw(st.sampled_from(list(bx.KEY_SIZES)))
    # decoy pairs in front of the real one that decrypt, under the real passphrase, to bytes ending in valid padding by chance
    chance_padding = correct > 0 and draw(st.booleans())
    inner = draw(st.one_of(entries(2, 6), entries(0, 1)))
    if draw(st.integers(0, 9)) == 0:
        # a configuration well beyond 32 KiB (long annotation / many device entries): the encrypted blob spans many chunks
        big = draw(st.sampled_from([0x8000 - 20, 0x8000 + 1, 40000, 70000]))
        inner = [e for e in inner if e[0].lower() != "annotation"] + [["annotation", ("note " * (big // 5 + 1))[:big].strip()]]
    spec = {
        "outer": draw(entries(0, 4)), "inner": inner, "pairs": pairs, "correct": correct, "data_cipher": data_cipher,
        "data_key": draw(st.binary(min_size=bx.KEY_SIZES[data_cipher], max_size=bx.KEY_SIZES[data_cipher])).hex(),
        "data_iv": draw(st.binary(min_size=16, max_size=16)).hex(),
        "inner_style": {"crlf": draw(st.booleans()), "sep": draw(st.sampled_from([" = ", "=", " =", "= "])), "quote": draw(st.booleans()),
                        "no_final_newline": draw(st.sampled_from([False, False, True]))},
        "outer_style": {"crlf": draw(st.booleans()), "sep": draw(st.sampled_from([" = ", "="])), "quote": True},
        "shuffle_outer": draw(st.booleans()), "chance_padding": chance_padding,
        "wrong": draw(st.lists(st.text(max_size=8), min_size=1, max_size=2)),
        "xors": draw(st.lists(st.integers(1, 255), min_size=1, max_size=2)),
    }
    # inner keys must not collide with the two encryption.* keys; outer may not contain them either
    return spec


def strategy(tier):
    return vmx_spec(tier)


COMBOS = [(c, m, k) for c in bx.KEY_SIZES for m in bx.MACS for k in bx.KDFS]
EXHAUSTIVE_NOTE = "all 18 cipher x MAC x KDF combinations, each with every single-byte tamper position"


def exhaustive(tier):
    """One fixed container per cipher x MAC x KDF combination (18), with full tamper enumeration."""
    for i, (c, m, k) in enumerate(COMBOS):
        yield {
            "outer": [["displayName", "vm"], [".encoding", "UTF-8"]], "inner": [["guestOS", "other"], ["scsi0:0.fileName", "d.vmdk"], ["memsize", "512"]],
            "pairs": [{"passphrase": "secret", "cipher": c, "mac": m, "kdf": k, "rounds": 3 + i, "salt": bytes(range(i, i + 16)).hex(),
                       "iv": bytes(range(16)).hex(), "id": "JTHVQF8/BHU="}],
            "correct": 0, "data_cipher": c, "data_key": bytes(range(50, 50 + bx.KEY_SIZES[c])).hex(), "data_iv": bytes(range(100, 116)).hex(),
            "inner_style": {"crlf": False, "sep": " = ", "quote": True}, "outer_style": {"crlf": False, "sep": " = ", "quote": True},
            "shuffle_outer": False, "wrong": ["Secret", ""], "xors": [1, 0x80],
        }


def unlock(text, phrase):
    from dissect.hypervisor.descriptor.vmx import VMX

    v = VMX.parse(text)
    before = copy.deepcopy(v.attr)
    v.disks_before_unlock = lib(lambda: list(v.disks()))[0]  # also: whatever disks() derives must not survive the unlock
    v.attr_seen_before = v.attr  # the dictionary as a caller saw it before unlocking (a reference, not a copy)
    _, err = lib(v.unlock_with_phrase, phrase)
    return v, before, err


def check(spec) -> Outcome:
    out = Outcome()
    text, after, before, lengths = bx.build(spec)
    p = spec["pairs"][spec["correct"]]
    tag = f"{p['cipher']}|{p['mac']}|{p['kdf']}"
    out.cls(p["cipher"], p["mac"], p["kdf"], f"pairs={len(spec['pairs'])}")
    if p["passphrase"] == "":
        out.cls("empty-passphrase")
    inner_len = lengths["data:ct"]
    out.cls("inner<16" if inner_len == 16 else "inner>=16")

    # (a) round trip
    v, b4, err = unlock(text, p["passphrase"])
    if err:
        out.fail(err.sig("unlock|" + tag), f"unlock with the correct passphrase raised {err.describe()}")
        return out
    if b4 != before:
        out.fail(f"mismatch|parse|{tag}", f"parsed attr {b4} != {before}")
    if v.attr != after:
        diff = {k: (v.attr.get(k), after.get(k)) for k in set(v.attr) | set(after) if v.attr.get(k) != after.get(k)}
        out.fail(f"mismatch|unlock|{tag}", f"attr after unlock differs: {diff}")
        return out

    if v.attr_seen_before != after:
        out.fail(f"mismatch|unlock-stale-reference|{tag}", "the configuration dictionary a caller obtained before unlocking does not show the "
                                                          "unlocked entries (vmx.attr was replaced, not updated)")

    from hv.props import c18

    exp_before, exp_after = c18.vmx_expected_disks(before), c18.vmx_expected_disks(after)
    if v.disks_before_unlock != exp_before:
        out.fail(f"mismatch|disks-locked|{tag}", f"disks() before unlocking {v.disks_before_unlock} != {exp_before}")
    got_disks, err = lib(lambda: list(v.disks()))
    if err or got_disks != exp_after:
        out.fail(f"mismatch|disks-unlocked|{tag}", f"disks() after unlocking {got_disks if not err else err.describe()} != {exp_after}")
    if exp_after != exp_before:
        out.cls("disks-only-visible-unlocked")

    # (a') the same object afterwards: a wrong passphrase still raises and changes nothing, the right one still works
    pw = p["passphrase"]
    snapshot = copy.deepcopy(v.attr)
    for w in [spec["wrong"][0] if spec["wrong"][0] != pw else pw + "x", pw]:
        _r, err = lib(v.unlock_with_phrase, w)
        if w != pw and err is None:
            out.fail(f"accepted|wrong-passphrase-after-unlock|{tag}", f"a second unlock_with_phrase({w!r}) on the unlocked object did not raise")
        if w == pw and err is not None:
            out.fail(err.sig("unlock-again|" + tag), f"a second unlock with the correct passphrase raised {err.describe()}")
        if v.attr != snapshot:
            out.fail(f"mutated|second-unlock|{tag}", "attr changed by a further unlock call on the unlocked object")

    # (b) wrong passphrases (incl. decoys' own passphrases)
    near = [pw + " ", " " + pw, pw + "\n", pw.strip(), pw.upper(), pw.lower(), pw[:-1], pw + pw[-1:], pw.replace("#", "")]
    import unicodedata

    near += [unicodedata.normalize(form, pw) for form in ("NFC", "NFD", "NFKC", "NFKD")] + [pw.casefold()]  # other strings, other keys
    wrong = [w for w in dict.fromkeys(spec["wrong"] + near) if w != pw]
    wrong += [q["passphrase"] for i, q in enumerate(spec["pairs"]) if i != spec["correct"]]
    for w in wrong:
        v, b4, err = unlock(text, w)
        if err is None:
            out.fail(f"accepted|wrong-passphrase|{tag}", f"unlock succeeded with wrong passphrase {w!r}")
        elif v.attr != b4:
            out.fail(f"mutated|wrong-passphrase|{tag}", "attr changed although unlocking failed")
        elif b4 != before:
            # the same text parsed again, after another object made from it was unlocked: a new object starts locked
            out.fail(f"mismatch|parse-again-after-unlock|{tag}", "a fresh VMX.parse() of the same text does not show the locked configuration "
                                                               "after another object parsed from it was unlocked")
            break

    # (c) single-byte tampering of every position of every field of the real pair and of encryption.data
    ntamper = 0
    for field, ln in sorted(lengths.items()):
        # every byte of the short fields; for long ciphertexts the first and last blocks plus 64 evenly spread positions
        positions = range(ln) if ln <= 512 else sorted(set(range(32)) | set(range(ln - 32, ln)) | set(range(0, ln, max(1, ln // 64))))
        for pos in positions:
            for x in spec["xors"][:1] if ln > 64 else spec["xors"]:
                t_text, _a, t_before, _l = bx.build(spec, tamper=(field, pos, x))
                v, b4, err = unlock(t_text, p["passphrase"])
                ntamper += 1
                fname = field.split(":")[0] + ":" + field.split(":")[-1]
                if err is None:
                    out.fail(f"accepted|tamper|{fname}|{p['mac']}", f"unlock succeeded although byte {pos} of {field} was XORed with {x:#x}")
                elif v.attr != b4:
                    out.fail(f"mutated|tamper|{fname}|{p['mac']}", f"attr changed although unlocking failed (byte {pos} of {field})")
                if len(out.failures) > 3:
                    return out
    out.cls(f"tampers>={min(ntamper // 100 * 100, 500)}")
    out.nontrivial = len(spec["inner"]) >= 2 and ntamper > 0
    return out
