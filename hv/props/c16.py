"""C16 — ESXi envelope and keystore: decrypt round-trips and is authenticated."""
from __future__ import annotations

import io
import os
import shutil
import sys
import tempfile
import uuid

from hypothesis import strategies as st

from hv.builders import envelope as be
from hv.core import track as core_track
from hv.core import Outcome, lib

ID = "C16"
TECHNIQUE = ("property-based round-trip with an inverse builder (AES-256-GCM via pycryptodome), wrong-key / tamper enumeration per "
             "generated envelope, keystore KDF differential against hashlib, CLI run in a temp dir")
RULE = (
    "Hypothesis draws version-2 envelopes: payload 0..64 KiB (boundary lengths 0,1,15,16,17,4095,4096,4097 and the 4 MiB "
    "decrypt-chunk boundary +-1 in the enumerated part), padding 0..4095, random key and 12-byte IV, the three required "
    "attributes + vmware.iv + 0..6 extra attributes of every type (UInt8..Int64, Float, Double, String, Bytes) in any order "
    "with unique names, optional associated data; plus keystore texts in mode NONE (extra lines, comments, dotted names, "
    "CRLF, quoting). The builder is the inverse operation. Oracles: Envelope(fh).decrypt(key, aad) == payload; the CLI "
    "(main() with patched argv in a temp dir, key from the keystore) writes exactly the payload; wrong key raises; every "
    "single-byte alteration of an attribute's type/flag/name/length/value bytes, of header magic/version, of sampled "
    "ciphertext bytes (incl. first/last), of every tag byte and of the associated data raises and returns nothing; "
    "KeyStore.from_text(t).key == PBKDF2-HMAC-SHA256(data1||salt, data2, 100000), .id == UUID(keyId), stable over repeated "
    "parses. Non-trivial = >= 1 extra attribute and a payload length that is not a multiple of 16."
    ' Nonce lengths 1, 8, 12, 13, 16 and 32 bytes.'
)
RULE += ' Round 10: the same rejected decrypt() call twice in a row on one object.'
ASSUMPTIONS = [
    "bytes the format never authenticates are outside the tamper domain: header pad and size field, the two reserved bytes of each "
    "attribute, zero fill after the attribute terminator, AEAD footer magic/padding/size fields",
    "attribute names are unique within an envelope",
]


def budget(tier):
    return 600 if tier == "quick" else 20000


NAMES = ["vmware.extra", "a", "x.y", "vmware.flags", "build", "ключ", "n1", "n2", "blob", "float.val"]


@st.composite
def attr(draw, name):
    t = draw(st.integers(1, 12))
    flag = draw(st.sampled_from([0, 0, 1, 0x80, 0xFF]))
    if t == be.T_STRING:
        v = draw(st.text(alphabet="abcXYZ019 -_.:/=é€", max_size=40))
    elif t == be.T_BYTES:
        v = draw(st.binary(max_size=48)).hex()
    elif t == be.T_FLOAT:
        v = draw(st.sampled_from([0.0, 1.5, -2.25, 1024.0]))
    elif t == be.T_DOUBLE:
        v = draw(st.floats(allow_nan=False, allow_infinity=False, width=64))
    else:
        bits = {be.T_UINT8: 8, be.T_UINT16: 16, be.T_UINT32: 32, be.T_UINT64: 64, be.T_INT8: 8, be.T_INT16: 16, be.T_INT32: 32, be.T_INT64: 64}[t]
        if t <= be.T_UINT64:
            v = draw(st.integers(0, (1 << bits) - 1))
        else:
            v = draw(st.integers(-(1 << (bits - 1)), (1 << (bits - 1)) - 1))
    return [t, flag, name, v]


@st.composite
def keystore_spec(draw):
    extra = []
    for i in range(draw(st.integers(0, 3))):
        extra.append([draw(st.sampled_from(["key.cache.size", "x", "vmx.a.b", ".hidden", "UPPER.lower"])) + str(i),
                      draw(st.text(alphabet="abc 019=:%/+", max_size=12)).strip(' "')])
    return {"key_id": draw(st.binary(min_size=16, max_size=16)).hex(), "data1": draw(st.binary(min_size=1, max_size=32)).hex(),
            "data2": draw(st.binary(min_size=1, max_size=32)).hex(), "extra": extra, "extra_at": draw(st.integers(0, 4)),
            "crlf": draw(st.booleans()), "comments": draw(st.booleans()), "sep": draw(st.sampled_from([" = ", "=", " =  "])),
            "no_final_newline": draw(st.sampled_from([False, False, True])),
            "field_order": draw(st.sampled_from([None, None, [3, 0, 1, 2], [0, 2, 1, 3], [2, 1, 0, 3], [3, 2, 1, 0]])),
            "quote_style": draw(st.sampled_from(["eq-lower", "eq-lower", "eq-upper", "all-lower", "all-upper", "none"]))}


@st.composite
def envelope_spec(draw, tier):
    plen = draw(st.one_of(st.sampled_from([0, 1, 15, 16, 17, 4095, 4096, 4097]), st.integers(0, 65536)))
    key_info = str(uuid.UUID(bytes=draw(st.binary(min_size=16, max_size=16))))
    required = [[be.T_STRING, 0, "vmware.keyInfo", key_info], [be.T_STRING, 0, "vmware.cipherName", "AES-256-GCM"],
                [be.T_BYTES, 0, "vmware.keyHash", "@keyhash"], [be.T_BYTES, 0, "vmware.iv", "@iv"]]
    names = draw(st.lists(st.sampled_from(NAMES), max_size=6, unique=True))
    extras = [draw(attr(n)) for n in names]
    attrs = list(draw(st.permutations(required + extras)))
    # the nonce is whatever the vmware.iv attribute holds: 12 bytes in files ESXi writes, but AES-GCM takes any non-empty length
    ivlen = draw(st.sampled_from([12, 12, 12, 12, 12, 1, 8, 13, 16, 32]))
    fill_free = draw(st.sampled_from([None, None, None, 0, 1, 2, 7]))
    if fill_free is not None:
        # a Bytes attribute sized so that the attributes + terminator leave exactly fill_free bytes of the 4096-byte header block
        used = 512 + 4 + sum(len(be.pack_attr(t, f, n, ("00" * 32 if v == "@keyhash" else "00" * ivlen if v == "@iv" else v))[0]) for t, f, n, v in attrs)
        room = 4096 - used - fill_free - (4 + len("fill") + 1 + 8)
        if room >= 0:
            attrs.insert(draw(st.integers(0, len(attrs))), [be.T_BYTES, 0, "fill", bytes((i * 11) & 0xFF for i in range(room)).hex()])
    mode = draw(st.sampled_from(["api", "api", "api", "cli", "keystore"]))
    spec = {
        "mode": mode, "payload_len": plen, "payload_key": draw(st.integers(1, 1 << 30)), "padding": draw(st.one_of(st.sampled_from([0, 4095, 1]), st.integers(0, 4095), st.sampled_from([65535, 65536, 65537, 70000, (1 << 20) + 5]))),
        "key": draw(st.binary(min_size=32, max_size=32)).hex(), "iv": draw(st.binary(min_size=ivlen, max_size=ivlen)).hex(),
        "attrs": [list(a) for a in attrs], "aad": draw(st.one_of(st.none(), st.binary(min_size=1, max_size=24).map(bytes.hex))),
        "xor": draw(st.sampled_from([1, 0x80, 0xFF, 0x20])), "ct_positions": draw(st.lists(st.integers(0, 1 << 20), min_size=4, max_size=8)),
    }
    if mode in ("cli", "keystore"):
        spec["keystore"] = draw(keystore_spec())
        spec["aad"] = None  # the tool passes no associated data
        # the envelope names the keystore's key id (as real files do), in any of the spellings of a UUID
        spec["keyinfo_case"] = draw(st.sampled_from(["lower", "lower", "upper", "mixed"]))
    return spec


def strategy(tier):
    return envelope_spec(tier)


EXHAUSTIVE_NOTE = "payload lengths {0,1,15,16,17,4095,4096,4097, 4MiB-4097, 4MiB-4096, 4MiB-4095, 4MiB-1, 4MiB, 4MiB+1} x padding {0, 4095}"
EXHAUSTIVE_SHARDS = 8


def exhaustive(tier):
    mib4 = 4 << 20
    for plen in [0, 1, 15, 16, 17, 4095, 4096, 4097, mib4 - 4097, mib4 - 4096, mib4 - 4095, mib4 - 1, mib4, mib4 + 1]:
        for padding in (0, 4095):
            yield {"mode": "api", "payload_len": plen, "payload_key": 99, "padding": padding, "key": bytes(range(32)).hex(), "iv": bytes(range(12)).hex(),
                   "attrs": [[be.T_BYTES, 0, "vmware.iv", "@iv"], [be.T_STRING, 0, "vmware.keyInfo", "7e62cec5-6aef-4d7e-838b-cae32eefd251"],
                             [be.T_STRING, 0, "vmware.cipherName", "AES-256-GCM"], [be.T_BYTES, 0, "vmware.keyHash", "@keyhash"],
                             [be.T_UINT32, 1, "n1", 7]],
                   "aad": b"ESXConfiguration".hex(), "xor": 1, "ct_positions": [0, 1, plen, plen + 1, plen + 4096 + 3583, 1 << 30]}


def scratch_dir():
    root = os.environ.get("VERIF_SCRATCH") or ("/dev/shm" if os.path.isdir("/dev/shm") else None)
    from hv.core import case_dir

    return case_dir("c16", root)


def decrypt(data: bytes, key: bytes, aad):
    from dissect.hypervisor.util.envelope import Envelope

    def run():
        e = Envelope(core_track(data))
        return e.decrypt(key, aad=aad)

    return lib(run)


def decrypt_variants(data: bytes, key: bytes, aad, payload, out):
    """The same envelope through other caller-side forms: associated data given positionally, a file object that only has
    read / seek / tell / close, and one whose seek() returns nothing."""
    from dissect.hypervisor.util.envelope import Envelope
    from hv.core import MinimalHandle

    forms = [("positional-aad", lambda: Envelope(core_track(data)).decrypt(key, aad)),
             ("minimal-handle", lambda: Envelope(MinimalHandle(data)).decrypt(key, aad=aad)),
             ("seek-returns-none", lambda: Envelope(MinimalHandle(data, seek_returns_none=True)).decrypt(key, aad=aad))]
    for name, fn in forms:
        got, err = lib(fn)
        if err or got != payload:
            out.fail(f"mismatch|decrypt-{name}", f"decrypt ({name}) " + (f"raised {err.describe()}" if err else "returned other bytes"))
            return
    # and the rejection side with positional associated data
    if aad:
        got, err = lib(lambda: Envelope(core_track(data)).decrypt(key, (aad or b"") + b"\x01"))
        if err is None:
            out.fail("accepted|wrong-aad-positional", "decrypt(key, <wrong associated data>) with positional arguments succeeded")


def check(spec) -> Outcome:
    from dissect.hypervisor.util.envelope import KeyStore

    out = Outcome()
    mode = spec["mode"]
    out.cls(mode)
    key = bytes.fromhex(spec["key"])
    ks_text = None
    if mode in ("cli", "keystore"):
        ks_text, ks_key, ks_id = be.keystore_text(spec["keystore"])
        store, err = lib(KeyStore.from_text, ks_text)
        if err:
            out.fail(err.sig("keystore"), f"KeyStore.from_text raised {err.describe()}")
            return out
        if store.key != ks_key:
            out.fail("mismatch|keystore-key", f"derived key {store.key.hex()} != PBKDF2 reference {ks_key.hex()}")
        if store.id != ks_id:
            out.fail("mismatch|keystore-id", f"id {store.id} != {ks_id}")
        store2, err = lib(KeyStore.from_text, ks_text)
        if err or store2.key != store.key or store2.id != store.id:
            out.fail("mismatch|keystore-repeat", "second parse of the same keystore text differs")
        key = ks_key
        spec = dict(spec, key=key.hex())
        if spec.get("keyinfo_case"):
            kid = {"lower": ks_id.lower(), "upper": ks_id.upper(), "mixed": ks_id[:18].upper() + ks_id[18:].lower()}[spec["keyinfo_case"]]
            spec["attrs"] = [[t, f, n, (kid if n == "vmware.keyInfo" else v)] for t, f, n, v in spec["attrs"]]
            out.cls("keyinfo-" + spec["keyinfo_case"])
        if mode == "keystore":
            out.nontrivial = len(spec["keystore"]["extra"]) > 0
            return out
    data, payload, aad, ranges = be.build(spec)
    nextra = len(spec["attrs"]) - 4
    out.nontrivial = nextra >= 1 and spec["payload_len"] % 16 != 0
    out.cls(f"extra-attrs={min(nextra, 3)}", "aad" if aad else "no-aad", "len%16==0" if spec["payload_len"] % 16 == 0 else "len%16!=0")

    if mode == "cli":
        return check_cli(spec, out, data, payload, ks_text)

    got, err = decrypt(data, key, aad)
    if err:
        out.fail(err.sig("decrypt"), f"decrypt of a well-formed envelope raised {err.describe()}")
        return out
    if got != payload:
        out.fail("mismatch|decrypt", f"decrypted {len(got)} bytes != payload of {len(payload)} bytes")
        return out
    # wrong key
    if spec["payload_len"] <= 1 << 20:
        decrypt_variants(data, key, aad, payload, out)
        if out.failures:
            return out
    wrong = bytes([key[0] ^ 1]) + key[1:]
    got, err = decrypt(data, wrong, aad)
    if err is None:
        out.fail("accepted|wrong-key", "decrypt succeeded with a wrong key")
    # one object, several calls: a rejected attempt (wrong key, wrong associated data) must not spoil a later correct one
    from dissect.hypervisor.util.envelope import Envelope

    env, err = lib(Envelope, core_track(data))
    if not err:
        for k_, a_, ok in ((wrong, aad, False), (key, aad, True), (key, (aad or b"") + b"\x01", False), (key, (aad or b"") + b"\x01", False),
                           (key, aad, True), (wrong, aad, False), (wrong, aad, False)):  # incl. the same rejected call made twice in a row
            got, err = lib(env.decrypt, k_, aad=a_)
            if ok and (err or got != payload):
                out.fail("mismatch|decrypt-after-rejection", "a correct decrypt() after a rejected one on the same Envelope object "
                         + (f"raised {err.describe()}" if err else "returned other bytes"))
                break
            if not ok and err is None:
                out.fail("accepted|wrong-input-same-object", "decrypt() with a wrong key / associated data succeeded on a reused Envelope object")
                break
    # wrong / missing aad
    if aad:
        got, err = decrypt(data, key, None)
        if err is None:
            out.fail("accepted|missing-aad", "decrypt succeeded without the associated data")
    else:
        got, err = decrypt(data, key, b"unexpected")
        if err is None:
            out.fail("accepted|extra-aad", "decrypt succeeded with unexpected associated data")
    # tampering
    x = spec["xor"]
    tampers = []
    for region, (a, b) in sorted(ranges.items()):
        if region == "ct":
            n = b - a
            pos = sorted({0, n - 1, n - 4096, n - 512, n - 8, max(0, spec["payload_len"] - 1)} | {p % n for p in spec["ct_positions"]})
            tampers += [(region, p) for p in pos if 0 <= p < n]
        elif region == "taglen":
            tampers += [(region, 0)]
        elif b - a > 64:
            n = b - a  # long values: first, last, middle and a few drawn positions
            tampers += [(region, p) for p in sorted({0, 1, n // 2, n - 2, n - 1} | {q % n for q in spec["ct_positions"]})]
        else:
            tampers += [(region, p) for p in range(b - a)]
    if aad:
        tampers += [("aad", p) for p in range(len(aad))]
    if spec["payload_len"] > 1 << 20:
        tampers = [t for t in tampers if t[0] in ("ct", "tag")][:12]  # large envelopes: keep the enumeration affordable
    for region, p in tampers:
        xx = x if region != "taglen" else spec["ct_positions"][0] % 15 + 16  # 16 ^ xx: a tag length of 0..15 or 17..31
        t_data, _p, t_aad, _r = be.build(spec, tamper=(region, p, xx))
        got, err = decrypt(t_data, key, t_aad)
        if err is None:
            kind = region.split(":")[-1] if region.startswith("attr") else region
            out.fail(f"accepted|tamper|{kind}", f"decrypt returned {len(got)} bytes although byte {p} of {region} was XORed with {x:#x}")
            if len(out.failures) > 3:
                break
    out.cls(f"tampers>={min(len(tampers) // 50 * 50, 300)}")
    return out


def check_cli(spec, out, data, payload, ks_text):
    from dissect.hypervisor.tools import envelope as tool

    d = scratch_dir()
    old_argv = sys.argv
    try:
        ep, kp, op = os.path.join(d, "file.ve"), os.path.join(d, "encryption.info"), os.path.join(d, "out.bin")
        with open(ep, "wb") as f:
            f.write(data)
        with open(kp, "w", newline="") as f:
            f.write(ks_text)
        before = {n: os.stat(os.path.join(d, n)).st_mtime_ns for n in os.listdir(d)}
        if spec["payload_key"] % 2:
            with open(op, "wb") as f:  # an older, longer output file is in the way: it must be replaced, not patched
                f.write(b"STALE" * (len(payload) // 5 + 300))
        sys.argv = ["envelope-decrypt", ep, "-ks", kp, "-o", op]
        rc, err = lib(tool.main)
        if err and isinstance(err.exc, SystemExit):  # argparse's parser.exit / parser.error
            if err.exc.code not in (0, None):
                out.fail("exit|cli", f"CLI exited with {err.exc.code!r} for a well-formed envelope and its keystore")
                return out
            err = None
        if err:
            out.fail(err.sig("cli"), f"CLI raised {err.describe()}")
            return out
        if not os.path.exists(op):
            out.fail("mismatch|cli-output", "CLI did not write the output file")
            return out
        with open(op, "rb") as f:
            got = f.read()
        if got != payload:
            out.fail("mismatch|cli-output", f"CLI wrote {len(got)} bytes, payload has {len(payload)}")
        after = sorted(os.listdir(d))
        if after != sorted(list(before) + ["out.bin"]):
            out.fail("mutated|cli-dir", f"directory content after the CLI run: {after}")
        for n, m in before.items():
            if os.stat(os.path.join(d, n)).st_mtime_ns != m:
                out.fail("mutated|cli-input", f"{n} was modified by the CLI")
        with open(ep, "rb") as f:
            if f.read() != data:
                out.fail("mutated|cli-input", "envelope file content changed")
        # the tool on altered copies of the same envelope: must fail, and must not hand out the payload
        if not out.failures:
            _d, _p, _a, ranges = be.build(spec)
            for region, pos in (("ct", max(0, ranges["ct"][1] - ranges["ct"][0] - 1)), ("tag", 0), ("ct", 0)):
                if ranges[region][1] <= ranges[region][0]:
                    continue
                t_data, _p2, _a2, _r2 = be.build(spec, tamper=(region, pos, spec["xor"]))
                with open(ep, "wb") as f:
                    f.write(t_data)
                if os.path.exists(op):
                    os.remove(op)
                rc, err = lib(tool.main)
                failed = err is not None and not (isinstance(err.exc, SystemExit) and err.exc.code in (0, None))
                failed = failed or (err is None and rc not in (0, None))
                written = open(op, "rb").read() if os.path.exists(op) else b""
                if not failed:
                    out.fail(f"accepted|cli-tamper|{region}", f"the tool exited normally for an envelope whose {region} byte {pos} was altered; it wrote {len(written)} bytes")
                    break
                if payload and written == payload:
                    out.fail(f"leaked|cli-tamper|{region}", "the tool failed but left the decrypted payload in the output file")
                    break
    finally:
        sys.argv = old_argv
        shutil.rmtree(d, ignore_errors=True)
    return out
