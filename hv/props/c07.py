"""C07 — Layer precedence in differencing, backing and snapshot chains."""
from __future__ import annotations

import os
import shutil
import tempfile
from pathlib import Path

from hypothesis import strategies as st

from hv import strat
from hv.builders import hdd as bhdd
from hv.builders import qcow2 as bq
from hv.builders import vdi as bvdi
from hv.builders import vhdx as bvhdx
from hv.builders import vmdk as bvmdk
from hv.core import DEBUG_LOG_ENV, Outcome, check_reads, lib
from hv.props import c01, c02, c03, c05, c06
from hv.sparse import Extents, Overlay, copy_shifted

ID = "C07"
RULE = (
    "Hypothesis draws layer chains (depth 1..3, thorough 4) over one virtual geometry for six families: VDI parents; QCOW2 "
    "backing chains (QCow2 over QCow2) and internal snapshots (QCow2Snapshot.open()); differencing VHDX in real temp "
    "directories (parent locator relative_path in same/sibling dir, BAT states 0/1/2/3/6/7 with sector bitmaps from families "
    "{random, alternating, byte-uniform, runs starting/ending at any bit}, 512/4096-byte sectors); VMDK descriptor and "
    "monolithic-sparse children over (multi-extent) parents located by parentFileNameHint in the same or a sibling directory; "
    "Parallels snapshot trees (DiskDescriptor.xml with Shots/ParentGUID/TopGUID, HDS per storage and snapshot, plain bases, "
    "relative/absolute/moved image paths). Each layer has its own allocation map; the oracle is the overlay model (topmost "
    "layer holding the sector, else the nearest ancestor, else zeros). Missing-parent configurations must raise at open "
    "unless the caller opted out. Non-trivial = depth >= 2 and a request draws from >= 2 different layers, or a must-raise "
    "configuration."
    " A second process variant runs with the package's debug logging switched on."
)
RULE += ' Round 10: SE-sparse delta extents; content flavours; Parallels File values compared with the descriptor after every open(); the scratch path is reused by every case.'
ASSUMPTIONS = [
    "path-based parents are real files in a scratch directory (/dev/shm), written sparsely",
    "every layer of a chain has the same virtual size (what the tools create)",
]

FAMILIES = ["vdi", "qcow2", "qcow2-snap", "vhdx", "vmdk", "hdd"]


def budget(tier):
    return 6000 if tier == "quick" else 40000


VARIANT_DISTINCT_SEEDS = True


def variants(tier):
    # which layer answers must not depend on the package's logging switches
    return [{"name": "default", "env": {}, "shards": 12},
            {"name": "debug-logging", "env": DEBUG_LOG_ENV, "args": {"budget_scale": 0.25}, "shards": 4}]


def max_depth(tier):
    return 3 if tier == "quick" else 4


# ---------------------------------------------------------------------------------------------- strategies
@st.composite
def vdi_chain(draw, tier):
    bits = draw(st.sampled_from([9, 12, 16, 20]))
    bs = 1 << bits
    nb = draw(st.integers(1, 12))
    last = draw(st.sampled_from([bs, 512, bs - 512 if bs > 512 else bs]))
    size = (nb - 1) * bs + max(512, last)
    depth = draw(st.integers(1, max_depth(tier)))
    layers = []
    vary = draw(st.sampled_from([False, False, True]))  # ancestors with a block size of their own (same virtual size)
    for i in range(depth):
        lbs = 1 << draw(st.sampled_from([9, 12, 16, 20])) if vary else bs
        layers.append(draw(c05.vdi_spec(tier, layer=i, fixed_geometry=(lbs, -(-size // lbs), size))))
    return {"family": "vdi", "layers": layers, "size": size, "unit": bs}


@st.composite
def qcow2_chain(draw, tier):
    cb = draw(st.sampled_from([9, 12, 16, 14]))
    ng = draw(st.integers(1, 40))
    if cb <= 14 and draw(st.booleans()):
        # more than one L1 entry per layer (a layer may then lack a whole L2 table where its neighbour has one)
        l2e = (1 << cb) // 8
        ng = draw(st.sampled_from([l2e + 1, l2e + 7, 2 * l2e + 1])) if cb > 9 else draw(st.integers(65, 400))
    depth = draw(st.integers(2, max_depth(tier)))
    layers = []
    for i in range(depth):
        s = draw(c01.qcow2_spec(tier, layer=i, size_clusters=ng, cluster_bits=cb, allow_backing=False))
        if i > 0:
            s["backing"] = {"name": f"layer{i - 1}.qcow2", "format": "qcow2", "length": ng << cb}
        layers.append(s)
    mode = draw(st.sampled_from(["ok", "ok", "ok", "ok", "none", "allow_none"]))
    return {"family": "qcow2", "layers": layers, "size": ng << cb, "unit": 1 << cb, "mode": mode}


@st.composite
def qcow2_snap(draw, tier):
    cb = draw(st.sampled_from([9, 12, 16, 14]))
    ng = draw(st.integers(1, 40))
    if cb == 9 and draw(st.booleans()):
        ng = draw(st.integers(65, 400))  # several L1 entries (64 clusters per L2 table)
    base = draw(c01.qcow2_spec(tier, layer=0, size_clusters=ng, cluster_bits=cb, allow_backing=True))
    force = {"version": base["version"], "ext_l2": base["ext_l2"], "data_file": base["data_file"]}
    snaps = []
    for i in range(draw(st.integers(1, 3))):
        other = draw(c01.qcow2_spec(tier, layer=0, size_clusters=ng, cluster_bits=cb, allow_backing=False, force=force))
        snaps.append({
            "id": str(i + 1), "name": draw(st.sampled_from(["snap", "before update", "s\u00e4fe", ""])) + str(i),
            "extra_size": draw(st.sampled_from([16, 24, 16, 0])), "clusters": other["clusters"],
            "share_active": draw(st.sampled_from([False, False, False, True])),
        })
        # L1 table of another length than the active one (snapshot taken before a resize)
        how = draw(st.sampled_from([None, None, "trim", "grow"]))
        if how == "trim":
            snaps[-1]["l1_trim"] = True
        elif how == "grow":
            snaps[-1]["l1_grow"] = draw(st.sampled_from([1, 3, 64]))
    base["snapshots"] = snaps
    base["open_late"] = draw(st.booleans())  # open the snapshot views only after the active view has been read from
    base["far_base"] = min(base["far_base"], 1 << 40)  # snapshot views may hold compressed clusters of their own
    base["comp_far"] = 0
    return {"family": "qcow2-snap", "image": base, "size": ng << cb, "unit": 1 << cb}


BITMAP_RUN_FAMILIES = ["random", "alt", "bytes", "edge", "single", "full-but-one"]


@st.composite
def sector_runs(draw, spb):
    """Present-sector runs [[first, count], ...] inside one block."""
    fam = draw(st.sampled_from(BITMAP_RUN_FAMILIES))
    runs = []
    if fam == "alt":
        step = draw(st.sampled_from([1, 2, 3, 8]))
        start = draw(st.integers(0, min(spb - 1, 16)))
        n = draw(st.integers(1, 24))
        for i in range(n):
            f = start + 2 * step * i
            if f + step <= spb:
                runs.append([f, step])
    elif fam == "bytes":
        for _ in range(draw(st.integers(1, 4))):
            b = draw(st.integers(0, spb // 8 - 1))
            runs.append([b * 8, 8 * draw(st.integers(1, 3))])
    elif fam == "edge":
        # runs that start/end at arbitrary bit positions around byte boundaries
        for _ in range(draw(st.integers(1, 4))):
            byte = draw(st.integers(0, spb // 8 - 2))
            a = byte * 8 + draw(st.integers(0, 7))
            runs.append([a, draw(st.integers(1, 17))])
    elif fam == "single":
        runs.append([draw(st.integers(0, spb - 1)), 1])
    elif fam == "full-but-one":
        hole = draw(st.integers(0, spb - 1))
        if hole:
            runs.append([0, hole])
        if hole + 1 < spb:
            runs.append([hole + 1, spb - hole - 1])
    else:
        for _ in range(draw(st.integers(1, 6))):
            a = draw(st.integers(0, spb - 1))
            runs.append([a, draw(st.integers(1, 40))])
    # normalise: clip, sort, merge overlaps
    runs = sorted([a, min(c, spb - a)] for a, c in runs if a < spb)
    out = []
    for a, c in runs:
        if out and a <= out[-1][0] + out[-1][1]:
            out[-1][1] = max(out[-1][1], a + c - out[-1][0])
        else:
            out.append([a, c])
    return out


@st.composite
def vhdx_chain(draw, tier):
    bs = draw(st.sampled_from([1 << 20, 1 << 20, 1 << 21]))
    ss = draw(st.sampled_from([512, 512, 4096]))
    cr = ((1 << 23) * ss) // bs
    nb = draw(st.one_of(st.integers(1, 8), st.sampled_from([cr + 2] if cr <= 4096 else [9])))
    last = draw(st.sampled_from([bs, ss, bs - ss, 8192 + ss]))
    size = (nb - 1) * bs + last
    depth = draw(st.integers(2, max_depth(tier)))
    layers = [draw(c03.vhdx_spec(tier, layer=0, geometry=(bs, ss, nb, size)))]
    layers[0]["blocks"] = [b for b in layers[0]["blocks"] if b[2] < 64][:6]  # keep real files small
    spb = bs // ss
    for i in range(1, depth):
        desc = sorted(set(draw(strat.sparse_subset(nb, 6))) | ({nb - 1} if draw(st.booleans()) else set()) |
                      ({b for b in (cr - 1, cr, cr + 1) if 0 <= b < nb} if draw(st.booleans()) else set()))
        states = [draw(st.sampled_from([7, 7, 7, 6, 0, 2, 1, 3])) for _ in desc]
        held = [b for b, s in zip(desc, states) if s in (6, 7)]
        partial = {str(b): draw(sector_runs(spb)) for b, s in zip(desc, states) if s == 7}
        chunks = sorted({int(b) // cr for b in partial})
        nent = bvhdx.geometry({"block_size": bs, "sector_size": ss, "size": size, "has_parent": True})[4]
        bat_mb = (nent * 8 + bvhdx.MB - 1) // bvhdx.MB
        meta_mb, bat_off = (2, 3) if draw(st.booleans()) else (2 + bat_mb, 2)
        base = 3 + bat_mb + draw(st.sampled_from([0, 1]))
        slots = draw(strat.placement(len(held) + len(chunks)))
        bmb = bs // bvhdx.MB
        where = {b: base + s * bmb for b, s in zip(held, slots)}
        sb = [[c, base + s * bmb] for c, s in zip(chunks, slots[len(held):])]
        parent_dir = draw(st.sampled_from(["", "", "sib"]))
        pname = f"layer{i - 1}.vhdx"
        rel = {"": [f".\\{pname}", pname, f"./{pname}"], "sib": [f"..\\sib{i - 1}\\{pname}"]}[parent_dir]
        loc = [["parent_linkage", "{83ed0ec9-24c8-49fa-a7c8-8a2a4b0a1f1c}"], ["relative_path", draw(st.sampled_from(rel))],
               ["absolute_win32_path", f"C:\\vm\\{pname}"]]
        if draw(st.booleans()):
            loc.reverse()
        layers.append({
            "block_size": bs, "sector_size": ss, "size": size, "seq": [5, 6], "regions": {"metadata": meta_mb, "bat": bat_off},
            "region_order": "mb", "meta_order": draw(st.permutations(list(range(6)))), "meta_gap": 0, "has_parent": True,
            "locator": loc, "blocks": [[b, s, where.get(b, 0)] for b, s in zip(desc, states)], "partial": partial, "sb": sb,
            "layer": i, "parent_dir": parent_dir,
        })
    mode = draw(st.sampled_from(["ok", "ok", "ok", "ok", "ok", "missing", "bad-locator-type", "nameless", "absolute"]))
    return {"family": "vhdx", "layers": layers, "size": size, "unit": bs, "mode": mode, "sector": ss}


@st.composite
def vmdk_chain(draw, tier):
    cap = draw(st.one_of(st.integers(1, 4000), st.sampled_from([2048, 4096, 16, 300])))
    depth = draw(st.integers(2, max_depth(tier)))
    layers = []
    for i in range(depth):
        nex = draw(st.sampled_from([1, 1, 2, 3])) if cap >= 8 else 1
        cuts = sorted(set(draw(st.lists(st.integers(1, cap - 1), min_size=nex - 1, max_size=nex - 1)))) if nex > 1 else []
        bounds = [0] + cuts + [cap]
        exts = []
        for j in range(len(bounds) - 1):
            n = bounds[j + 1] - bounds[j]
            kinds = ["kdmv", "kdmv", "cowd", "sesparse"] + (["flat"] if i == 0 else [])  # SE-sparse deltas: zeroed and unmapped grains over a parent
            e = draw(c02.extent_spec(tier, kind=draw(st.sampled_from(kinds)), layer=i * 8 + j, capacity=n, allow_compressed=False))
            e.pop("descriptor", None)
            exts.append(e)
        top_kind = "descriptor"
        if i == depth - 1 and len(exts) == 1 and exts[0]["kind"] == "kdmv" and draw(st.booleans()):
            top_kind = "monolithic"
        pdir = draw(st.sampled_from(["", "", "sibling"]))
        hint_style = draw(st.sampled_from(["plain", "relative", "windows", "unix-abs"]))
        layers.append({"extents": exts, "top_kind": top_kind, "parent_dir": pdir, "hint_style": hint_style,
                       "crlf": draw(st.booleans())})
    name_style = draw(st.sampled_from(["plain", "plain", "equals", "spaces", "hash", "unicode"]))
    mode = draw(st.sampled_from(["ok", "ok", "ok", "ok", "ok", "missing", "nameless"]))
    if mode == "nameless" and layers[-1]["top_kind"] != "monolithic":
        mode = "ok"
    return {"family": "vmdk", "layers": layers, "size": cap * 512, "unit": 512 * 64, "mode": mode, "name_style": name_style}


GUIDS = [bhdd.DEFAULT_TOP, "1a2b3c4d-0000-4000-8000-00000000000a", "1a2b3c4d-0000-4000-8000-00000000000b",
         "1a2b3c4d-0000-4000-8000-00000000000c", "1a2b3c4d-0000-4000-8000-00000000000d"]


@st.composite
def hdd_chain(draw, tier):
    nst = draw(st.sampled_from([1, 1, 2]))
    depth = draw(st.integers(1, max_depth(tier)))
    # snapshot chain: shot[0] is the base ... shot[depth-1] the top; plus an optional side branch off the base
    order = draw(st.permutations(GUIDS[1:]))
    top_is_default = draw(st.booleans())
    chain = [order[i] for i in range(depth - 1)] + [bhdd.DEFAULT_TOP if top_is_default else order[depth - 1]]
    side = order[depth] if draw(st.booleans()) and depth < 4 else None
    storages = []
    start = 0
    for s in range(nst):
        cs = draw(st.sampled_from([2048, 8, 16, 128, 1]))
        ncl = draw(st.integers(1, 10))
        size_sectors = (ncl - 1) * cs + draw(st.sampled_from([cs, 1, max(1, cs - 1)]))
        images = []
        for d, g in enumerate(chain + ([side] if side else [])):
            plain = d == 0 and draw(st.sampled_from([False, False, True]))
            if plain:
                images.append({"guid": g, "type": "Plain", "holes": draw(st.lists(st.integers(0, 3), max_size=2, unique=True))})
            else:
                hs, _ = draw(c06.hds_spec(tier, layer=s * 8 + d, geometry=(cs, ncl, size_sectors)))
                images.append({"guid": g, "type": "Compressed", "hds": hs})
        storages.append({"start": start, "end": start + size_sectors, "images": images})
        start += size_sectors
    path_style = draw(st.sampled_from(["relative", "relative", "absolute", "moved-same", "moved-sibling", "moved-pvm", "missing", "dangling"]))
    if path_style == "dangling" and depth < 2:
        path_style = "relative"
    return {"family": "hdd", "storages": storages, "chain": chain, "side": side, "write_top_guid": draw(st.booleans()),
            "shuffle": draw(st.booleans()), "path_style": path_style, "size": start * 512, "unit": 512 * 16,
            # the process's working directory holds files with the very names the descriptor uses (another VM's disk)
            "cwd_decoy": draw(st.sampled_from([False, False, True])),
            "image_order": draw(st.sampled_from([None, None, "reverse", "rotate"]))}


@st.composite
def strategy_(draw, tier):
    fam = draw(st.sampled_from(FAMILIES))
    spec = draw({"vdi": vdi_chain, "qcow2": qcow2_chain, "qcow2-snap": qcow2_snap, "vhdx": vhdx_chain, "vmdk": vmdk_chain,
                 "hdd": hdd_chain}[fam](tier))
    pts = []
    if fam == "vhdx":
        ss, bs = spec["sector"], spec["unit"]
        for lay in spec["layers"][1:]:
            for b, runs in lay["partial"].items():
                for a, c in runs[:6]:
                    pts += [int(b) * bs + a * ss, int(b) * bs + (a + c) * ss]
    if fam in ("qcow2", "qcow2-snap"):
        img = spec["layers"][-1] if fam == "qcow2" else spec["image"]
        cs = 1 << img["cluster_bits"]
        span = cs * (cs // (16 if img["ext_l2"] else 8))
        l1_pts = [k * span for k in range(1, min(4, spec["size"] // span + 1))]
        pts += l1_pts
    spec["requests"] = draw(strat.requests(spec["size"], spec["unit"], count=6, points=pts, whole_limit=4 << 20))
    if fam in ("qcow2", "qcow2-snap") and l1_pts:
        # always: a request that starts inside the last cluster before an L1 boundary (mid-cluster where clusters exceed the
        # stream buffer) and ends behind it
        p0 = draw(st.sampled_from(l1_pts))
        back = draw(st.sampled_from([512, 8192, 8192 + 512, cs // 2, cs - 512]))
        spec["requests"].append([max(0, p0 - back), back + draw(st.sampled_from([1, 512, 8192, cs]))])
    spec["flavours"] = draw(st.booleans())
    return spec


def strategy(tier):
    return strategy_(tier)


# ---------------------------------------------------------------------------------------------- execution
def scratch_dir():
    root = os.environ.get("VERIF_SCRATCH") or ("/dev/shm" if os.path.isdir("/dev/shm") else None)
    from hv.core import case_dir

    return case_dir("c07", root)


def note_sources(out, model, spec):
    srcs = set()
    for off, n in spec["requests"]:
        s = model.sources(off, n)
        if len(s) >= 2:
            out.nontrivial = True
        srcs |= s
    out.cls(f"layers-read={len(srcs)}")


def run_vdi(spec, out):
    from dissect.hypervisor.disk.vdi import VDI

    lays = []
    stream = None
    for ls in spec["layers"]:
        fh, lay, _ = bvdi.build(ls)
        lays.insert(0, lay)
        stream, err = lib(VDI, fh, parent=stream) if stream is not None else lib(VDI, fh)
        if err:
            out.fail(err.sig("vdi-chain-open"), f"VDI() raised {err.describe()}")
            return
    model = Overlay(lays, spec["size"])
    note_sources(out, model, spec)
    check_reads(out, stream, model, spec["requests"], "vdi-chain")


def run_qcow2(spec, out):
    from dissect.hypervisor.disk import qcow2 as dq

    lays = []
    stream = None
    n = len(spec["layers"])
    for i, ls in enumerate(spec["layers"]):
        fh, dfh, _b, layers, meta = bq.build(ls)
        kw = {}
        if dfh is not None:
            kw["data_file"] = dfh
        top = i == n - 1
        if i > 0:
            if top and spec["mode"] == "none":
                q, err = lib(dq.QCow2, fh, **kw)
                out.nontrivial = True
                out.cls("must-raise")
                if err is None:
                    out.fail("accepted|qcow2-missing-backing", "QCow2() opened an image that names a backing file without one")
                return
            if top and spec["mode"] == "allow_none":
                kw["backing_file"] = dq.ALLOW_NO_BACKING_FILE
                lays = []
            else:
                kw["backing_file"] = stream
        stream, err = lib(dq.QCow2, fh, **kw)
        if err:
            out.fail(err.sig("qcow2-chain-open"), f"QCow2() raised {err.describe()}")
            return
        lays.insert(0, layers["active"])
    model = Overlay(lays, spec["size"])
    note_sources(out, model, spec)
    out.cls("qcow2-" + spec["mode"])
    check_reads(out, stream, model, spec["requests"], "qcow2-chain")


def run_qcow2_snap(spec, out):
    img = spec["image"]
    built = bq.build(img)
    fh, dfh, bfh, layers, meta = built
    q, err = c01.open_image(img, built)
    if err:
        out.fail(err.sig("qcow2-snap-open"), f"QCow2() raised {err.describe()}")
        return
    snaps, err = lib(lambda: list(q.snapshots))
    if err:
        out.fail(err.sig("qcow2-snap-table"), f"snapshots raised {err.describe()}")
        return
    if len(snaps) != len(img["snapshots"]):
        out.fail("mismatch|qcow2-snap-count", f"{len(snaps)} snapshots, expected {len(img['snapshots'])}")
        return
    out.nontrivial = True
    # interleave reads on the active view and every snapshot view (they share the file handle and the L2 cache)
    views = [("active", q, c01.model_of(img, layers, "active"))]
    if img.get("open_late"):
        # small reads at the start and at the first request fill the active view's buffer before the views are created
        check_reads(out, q, views[0][2], [[0, 100], [spec["requests"][0][0], 10]], "qcow2-snap-active")
    for i, (s, ss) in enumerate(zip(snaps, img["snapshots"])):
        v, err = lib(s.open)
        if err:
            out.fail(err.sig("qcow2-snap-open-view"), f"snapshot.open() raised {err.describe()}")
            return
        views.append((f"snap{i}", v, c01.model_of(img, layers, "active" if ss.get("share_active") else i)))
    if img.get("open_late"):
        for name, stream, model in views[1:]:
            check_reads(out, stream, model, [[0, 100], [1, 600]], "qcow2-snap-fresh-view")
    for r in spec["requests"]:
        for name, stream, model in views:
            check_reads(out, stream, model, [r], "qcow2-snap" if name != "active" else "qcow2-snap-active")


def run_vhdx(spec, out):
    from dissect.hypervisor.disk.vhdx import VHDX

    d = scratch_dir()
    try:
        lays = []
        n = len(spec["layers"])
        paths = []
        # directory of layer i: 'vm' for the top; a parent lives in the child's directory or in a sibling 'sib<i>'
        dirs = ["vm"] * n
        for i in range(n - 1, 0, -1):
            dirs[i - 1] = dirs[i] if spec["layers"][i].get("parent_dir") == "" else f"sib{i - 1}"
        for i, ls in enumerate(spec["layers"]):
            ls = dict(ls)
            if i == n - 1 and spec["mode"] == "bad-locator-type" and ls.get("has_parent"):
                ls["locator_type"] = "b04aefb7-d19e-4a81-b789-25b8e9445914"
            if i == n - 1 and spec["mode"] == "absolute" and ls.get("has_parent"):
                # the relative path leads nowhere; the parent is only reachable through absolute_win32_path
                real = os.path.join(d, dirs[i - 1], f"layer{i - 1}.vhdx")
                ls["locator"] = [["relative_path", "..\\nowhere\\x.vhdx"], ["absolute_win32_path", real.lstrip("/").replace("/", "\\")]]
            fh, lay, meta = bvhdx.build(ls)
            os.makedirs(os.path.join(d, dirs[i]), exist_ok=True)
            p = os.path.join(d, dirs[i], f"layer{i}.vhdx")
            missing = spec["mode"] == "missing" and i == n - 2
            if not missing:
                fh.write_to(p)
            paths.append(p)
            lays.insert(0, lay)
        top = Path(paths[-1])
        if spec["mode"] == "nameless":
            import io

            with open(paths[-1], "rb") as f:
                v, err = lib(VHDX, io.BytesIO(f.read(64 << 20)))  # a handle without a name: the parent cannot be located
        else:
            v, err = lib(VHDX, top)
        if spec["mode"] in ("missing", "bad-locator-type", "nameless") and n >= 2:
            out.nontrivial = True
            out.cls("must-raise")
            if err is None:
                out.fail(f"accepted|vhdx-{spec['mode']}", f"VHDX() opened a differencing disk with mode {spec['mode']}")
            _close_vhdx(v)
            return
        if err:
            out.fail(err.sig("vhdx-chain-open"), f"VHDX() raised {err.describe()}")
            return
        try:
            model = Overlay(lays, spec["size"])
            note_sources(out, model, spec)
            out.cls(f"vhdx-ss{spec['sector']}")
            check_reads(out, v, model, spec["requests"], "vhdx-chain")
            ss = spec["sector"]
            for off, n_ in spec["requests"][:3]:
                s, c = off // ss, max(1, min(n_, 1 << 20) // ss)
                c = min(c, spec["size"] // ss - s)
                if c <= 0:
                    continue
                got, err = lib(v.read_sectors, s, c)
                if err:
                    out.fail(err.sig("vhdx-chain-sectors"), f"read_sectors({s},{c}) raised {err.describe()}")
                elif got != model.read_at(s * ss, c * ss):
                    out.fail("mismatch|vhdx-chain-sectors", f"read_sectors({s}, {c}) differs from model")
        finally:
            _close_vhdx(v)
    finally:
        shutil.rmtree(d, ignore_errors=True)


def _close_vhdx(v):
    while v is not None:
        try:
            v.fh.close()
        except Exception:  # noqa: BLE001
            pass
        v = getattr(v, "parent", None)


_NAME = ["layer"]  # file-name stem of the VMDK chain being built (parent hints may contain '=' or spaces)


def _vmdk_layer_files(d, i, ls, parent_ref, size_sectors):
    """Write one VMDK layer into dir d/<dir>.  Returns (path of the file to open, layer Extents)."""
    exts = ls["extents"]
    lay = Extents(size_sectors * 512)
    pos = 0
    ext_lines = []
    for j, e in enumerate(exts):
        e = dict(e)
        if ls["top_kind"] == "monolithic":
            e["descriptor"] = bvmdk.descriptor_text({
                "cid": "aabbccdd", "parent_cid": "11223344" if parent_ref else "ffffffff", "create_type": "monolithicSparse",
                "parent_hint": parent_ref, "extents": [{"sectors": e["capacity"], "type": "SPARSE", "file": f"{_NAME[0]}{i}.vmdk"}],
                "crlf": ls["crlf"]})
        fh, elay, _m = bvmdk.build(e)
        copy_shifted(elay, lay, pos * 512)
        name = f"{_NAME[0]}{i}.vmdk" if ls["top_kind"] == "monolithic" else f"{_NAME[0]}{i}-s{j:03d}.vmdk"
        fh.write_to(os.path.join(d, name))
        typ = {"kdmv": "SPARSE", "cowd": "VMFSSPARSE", "flat": "FLAT", "sesparse": "SESPARSE"}[e["kind"]]
        ext_lines.append({"sectors": e["capacity"], "type": typ, "file": name, "offset": 0 if typ == "FLAT" else None})
        pos += e["capacity"]
    if ls["top_kind"] == "monolithic":
        return os.path.join(d, f"{_NAME[0]}{i}.vmdk"), lay
    text = bvmdk.descriptor_text({
        "cid": "aabbccdd", "parent_cid": "11223344" if parent_ref else "ffffffff", "parent_hint": parent_ref,
        "create_type": "twoGbMaxExtentSparse", "extents": ext_lines, "crlf": ls["crlf"], "ddb": {"ddb.adapterType": "ide"}})
    p = os.path.join(d, f"{_NAME[0]}{i}.vmdk")
    with open(p, "w", newline="") as f:
        f.write(text)
    return p, lay


def run_vmdk(spec, out):
    from dissect.hypervisor.disk.vmdk import VMDK

    d = scratch_dir()
    _NAME[0] = {"equals": "base=golden ", "spaces": "my disk (1) ", "hash": "snap #", "unicode": "dïsk-中-\U0001F98A-"}.get(spec.get("name_style"), "layer")
    try:
        n = len(spec["layers"])
        lays = []
        cap = spec["size"] // 512
        top_path = None
        # directory of layer i: 'vm' for the top; a parent lives in the same dir or in a sibling dir named 'base<i>'
        dirs = ["vm"] * n
        for i in range(n - 1, 0, -1):
            pd = spec["layers"][i]["parent_dir"]
            dirs[i - 1] = dirs[i] if pd == "" else f"base{i - 1}"
        for i, ls in enumerate(spec["layers"]):
            dd = os.path.join(d, dirs[i])
            os.makedirs(dd, exist_ok=True)
            parent_ref = None
            if i > 0:
                pname = f"{_NAME[0]}{i - 1}.vmdk"
                style = ls["hint_style"]
                if dirs[i - 1] == dirs[i]:
                    parent_ref = {"plain": pname, "relative": pname, "windows": f"C:\\vms\\{dirs[i - 1]}\\{pname}",
                                  "unix-abs": f"/vmfs/volumes/ds/{dirs[i - 1]}/{pname}"}[style]
                else:
                    parent_ref = {"plain": f"{dirs[i - 1]}/{pname}", "relative": f"../{dirs[i - 1]}/{pname}",
                                  "windows": f"C:\\vms\\{dirs[i - 1]}\\{pname}", "unix-abs": f"/vmfs/volumes/ds/{dirs[i - 1]}/{pname}"}[style]
            p, lay = _vmdk_layer_files(dd, i, ls, parent_ref, cap)
            lays.insert(0, lay)
            top_path = p
        if spec["mode"] == "missing":
            os.remove(os.path.join(d, dirs[n - 2], f"{_NAME[0]}{n - 2}.vmdk"))
        if spec["mode"] == "nameless":
            import io

            with open(top_path, "rb") as f:
                v, err = lib(VMDK, io.BytesIO(f.read()))  # embedded delta descriptor, but nothing to locate the parent with
        else:
            v, err = lib(VMDK, Path(top_path))
        if spec["mode"] in ("missing", "nameless"):
            out.nontrivial = True
            out.cls("must-raise")
            if err is None:
                out.fail(f"accepted|vmdk-{spec['mode']}-parent", "VMDK() opened a delta disk whose parent cannot be resolved")
            _close_vmdk(v)
            return
        if err:
            out.fail(err.sig("vmdk-chain-open"), f"VMDK() raised {err.describe()}")
            return
        try:
            model = Overlay(lays, spec["size"])
            note_sources(out, model, spec)
            out.cls("vmdk-monolithic-top" if spec["layers"][-1]["top_kind"] == "monolithic" else "vmdk-descriptor-top")
            check_reads(out, v, model, spec["requests"], "vmdk-chain")
        finally:
            _close_vmdk(v)
    finally:
        shutil.rmtree(d, ignore_errors=True)


def _close_vmdk(v, depth=0):
    if v is None or depth > 8:
        return
    for dsk in getattr(v, "disks", []):
        try:
            dsk.fh.close()
        except Exception:  # noqa: BLE001
            pass
        _close_vmdk(getattr(dsk, "parent", None), depth + 1)
    _close_vmdk(getattr(v, "parent", None), depth + 1)


def c12_base_hds():
    from hv.props import c12

    return c12.base_hds(2)


def run_hdd(spec, out):
    from dissect.hypervisor.disk.hdd import HDD

    d = scratch_dir()
    restore_cwd = None
    try:
        root = os.path.join(d, "vm.pvm", "disk.hdd")
        os.makedirs(root)
        style = spec["path_style"]
        recorded_root = "/Users/someone/Parallels/orig.pvm/orig.hdd"
        file_dir = {"relative": root, "absolute": root, "moved-same": root,
                    "moved-sibling": os.path.join(d, "vm.pvm", "orig.hdd"),
                    "moved-pvm": os.path.join(d, "orig.pvm", "orig.hdd"), "missing": root, "dangling": root}[style]
        os.makedirs(file_dir, exist_ok=True)
        chain = spec["chain"]
        all_shots = chain + ([spec["side"]] if spec["side"] else [])
        lays_by_guid = {g: Extents(spec["size"]) for g in all_shots}
        desc_storages = []
        first_file = None
        for si, s in enumerate(spec["storages"]):
            images = []
            for im in s["images"]:
                g = im["guid"]
                nbytes = (s["end"] - s["start"]) * 512
                if im["type"] == "Plain":
                    from hv.sparse import Pat, SparseFile

                    fh = SparseFile(nbytes)
                    lay = Extents(nbytes)
                    for c in range((nbytes + (1 << 20) - 1) >> 20):
                        if c in im["holes"]:
                            continue
                        p = Pat(0x9B000 + si * 64 + c, min(1 << 20, nbytes - (c << 20)))
                        fh.put(c << 20, p)
                        lay.put(c << 20, p)
                    # a plain image holds every sector: holes are explicit zeros, not transparent
                    full = Extents(nbytes)
                    from hv.sparse import Sub

                    full.put(0, Sub(lay, 0, nbytes))
                    lay = full
                else:
                    fh, lay, _m = bhdd.build(im["hds"])
                copy_shifted(lay, lays_by_guid[g], s["start"] * 512)
                fname = f"disk.hdd.{si}.{{{g}}}.hds"
                fpath = os.path.join(file_dir, fname)
                if first_file is None:
                    first_file = fpath
                fh.write_to(fpath)
                rec = {"relative": fname, "absolute": os.path.join(root, fname)}.get(style, f"{recorded_root}/{fname}")
                images.append({"guid": g, "type": im["type"], "file": rec})
            # the <Image> elements of a storage in chain order, reversed or rotated: they are looked up by GUID, not by position
            how = spec.get("image_order")
            if how == "reverse":
                images = images[::-1]
            elif how == "rotate" and len(images) > 1:
                images = images[1:] + images[:1]
            desc_storages.append({"start": s["start"], "end": s["end"], "images": images})
        if style == "missing":
            os.remove(first_file)
        shots = [{"guid": g, "parent": chain[i - 1] if i else bhdd.NULL_GUID} for i, g in enumerate(chain)]
        if spec["side"]:
            shots.append({"guid": spec["side"], "parent": chain[0]})
        if style == "dangling":
            # the Shot entry of a lower snapshot is gone while the one above still names it as its parent: unresolvable
            drop = chain[(len(chain) - 2) * (spec["size"] // 512 % 2)]
            shots = [sh for sh in shots if sh["guid"] != drop]
        top = chain[-1]
        write_top = spec["write_top_guid"] or top != bhdd.DEFAULT_TOP
        desc = {"disk_size": spec["size"] // 512, "storages": desc_storages, "shots": shots, "top_guid": top if write_top else None}
        if spec["shuffle"]:
            desc["shuffle"] = list(reversed(range(len(desc_storages))))
        with open(os.path.join(root, "DiskDescriptor.xml"), "w") as f:
            f.write(bhdd.descriptor_xml(desc))
        if spec.get("cwd_decoy"):
            decoy = os.path.join(d, "elsewhere", "other.hdd")
            os.makedirs(decoy)
            for st_ in desc_storages:
                for im in st_["images"]:
                    with open(os.path.join(decoy, os.path.basename(im["file"])), "wb") as f:
                        f.write(c12_base_hds())
            restore_cwd = os.getcwd()
            os.chdir(decoy)
            out.cls("hdd-cwd-decoy")
        hdd, err = lib(HDD, Path(root))
        if err:
            out.fail(err.sig("hdd-open"), f"HDD() raised {err.describe()}")
            return
        out.cls(f"hdd-{style}", f"hdd-depth={len(chain)}", "hdd-top-default" if top == bhdd.DEFAULT_TOP else "hdd-top-custom")
        targets = [(None, chain)] + [(g, chain[: i + 1]) for i, g in enumerate(chain)]
        if spec["side"]:
            targets.append((spec["side"], [chain[0], spec["side"]]))
        if style in ("missing", "dangling"):
            out.nontrivial = True
            out.cls("must-raise")
            stream, err = lib(hdd.open)
            if err is None:
                out.fail("accepted|hdd-missing-image" if style == "missing" else "accepted|hdd-dangling-parent",
                         "HDD.open() succeeded although " + ("an image file of the chain is missing" if style == "missing" else
                                                             "a snapshot's ParentGUID names a snapshot the descriptor does not list"))
            return
        for guid, sub in targets:
            stream, err = lib(hdd.open, guid) if guid else lib(hdd.open)
            if err:
                out.fail(err.sig("hdd-chain-open"), f"HDD.open({guid}) raised {err.describe()}")
                return
            model = Overlay([lays_by_guid[g] for g in reversed(sub)], spec["size"])
            if guid is None:
                note_sources(out, model, spec)
            if stream.size != spec["size"]:
                out.fail("mismatch|hdd-chain-size", f"size {stream.size} != {spec['size']}")
            check_reads(out, stream, model, spec["requests"] if guid is None else spec["requests"][:3],
                        "hdd-chain" if guid is None else "hdd-chain-guid")
            _close_hdd(stream)
            # what the descriptor object exposes is what DiskDescriptor.xml says, also after images were located and opened
            files_now = sorted(im.file for st_ in hdd.descriptor.storage_data.storages for im in st_.images)
            files_xml = sorted(im["file"] for st_ in desc_storages for im in st_["images"])
            if files_now != files_xml:
                out.fail("mismatch|hdd-image-file-after-open", f"image File values exposed after open(): {files_now[:3]} != stored {files_xml[:3]}")
                return
    finally:
        if restore_cwd:
            os.chdir(restore_cwd)
        shutil.rmtree(d, ignore_errors=True)


def _close_hdd(stream):
    for _, s in getattr(stream, "streams", []):
        depth = 0
        while s is not None and depth < 8:
            f = getattr(s, "fh", s)
            try:
                f.close()
            except Exception:  # noqa: BLE001
                pass
            s = getattr(s, "parent", None)
            depth += 1


def check(spec) -> Outcome:
    out = Outcome()
    fam = spec["family"]
    out.cls(fam)
    {"vdi": run_vdi, "qcow2": run_qcow2, "qcow2-snap": run_qcow2_snap, "vhdx": run_vhdx, "vmdk": run_vmdk, "hdd": run_hdd}[fam](spec, out)
    return out
