"""C11 — Termination and bounded resources on arbitrary input."""
from __future__ import annotations

import functools
import gzip
import json
import io
import os
import re
import shutil
import struct
import tempfile
import time
import tracemalloc
import zlib
from pathlib import Path

from hypothesis import strategies as st

from hv.builders import envelope as benv
from hv.builders import hdd as bhdd
from hv.builders import hyperv as bhv
from hv.builders import qcow2 as bq
from hv.builders import vdi as bvdi
from hv.builders import vhd as bvhd
from hv.builders import vhdx as bvhdx
from hv.builders import vmdk as bvmdk
from hv.builders import vmxcrypt as bvx
from hv.core import track as core_track
from hv.core import CaseTimeout, Outcome
from hv.core import in_library as core_in_library
from hv.props import c12, c20

ID = "C11"
TECHNIQUE = ("structure-aware mutation fuzzing with Hypothesis: exhaustive single-field mutation of every known header/table field of "
             "valid builder output, truncation, random corruption and splices, crafted reference cycles and decompression bombs; "
             "oracle = returns-or-raises within a CPU-time budget (ITIMER_PROF) and a tracemalloc peak budget")
RULE = (
    "Seed corpus = small valid artefacts from the independent builders (QCOW2 plain/compressed/extended-L2/snapshots, VMDK "
    "KDMV / stream-optimized / COWD / SE-sparse / descriptor, VHDX, VHD dynamic+fixed, VDI, HDS v1+v2, Parallels descriptor "
    "dirs, Hyper-V, envelope, keystore, VMX plain+encrypted, vmtar plain+gzip). Mutations: every known field x {0, 1, 2, max, "
    "max-1, value+-1, its own offset, another table's offset, file size, and for size/length/offset/count fields minus the small "
    "lengths found in the seed} (enumerated), any aligned word of the metadata area "
    "set to such values, truncation at structure boundaries +-1 and at random points, random multi-byte corruption, splices, "
    "runs of 25..3000 equal characters inserted at the structural positions of the text formats, Parallels storage bounds that do "
    "not join up, crafted cycles (VHDX parent locators of length 1..3 and VMDK parent hints of length 1..2 opened by path, Parallels ParentGUID cycles of length 1..4 incl. cycles the start only leads into, Hyper-V object tables "
    "referencing themselves / each other at aligned and unaligned offsets, key-table parent loops, QCOW2 L1->header, VHDX region->itself) and decompression "
    "bombs (QCOW2 cluster / VMDK grain whose deflate stream expands to >= 64 MiB, also footer-governed with a deviating front header), and a sweep of one request per grain over a "
    "stream-optimised VMDK of 48 compressed 4 MiB grains (memory must follow the request, not the history). The driver opens the input and touches the "
    "public surface (size, 64 KiB reads at start/middle/tail, snapshots, as_dict, disks, members + extract, decrypt, unlock). "
    "Oracle: it returns or raises (any exception) within 10 s of CPU time and with a tracemalloc peak <= 64 MiB + 8 x (input + "
    "requested bytes + allocation unit of the seed). Non-trivial = the mutated input differs from its seed and still passes "
    "the first magic check (the parser got past its header)."
    ' Tar header mutations also with recomputed header checksums; crafted pax size-record cycles (an extended header in front of a visor member whose data offset leads back to an earlier header); the 128 MiB grain bomb as zlib, raw deflate and gzip stream.'
)
RULE += ' Round 10: CPU budget 8 s + 6 us per input byte; bombs behind grain markers with LBA at / around the capacity; deep acyclic VMDK chains; keystore option injection with the derivation on; one key table named by 3000 object-table entries.'
ASSUMPTIONS = [
    "PBKDF2 iteration counts above 10^6 in a mutated key safe are not unlocked (the cost is inherent to the stored parameter)",
    "for gzip-wrapped vmtar input the inflated length (<= 64 MiB) counts as the input size",
]

REQ = 65536
BASE_MEM = 64 << 20  # interpreter + stdlib constants (tarfile probing its xz/bz2/gz openers alone peaks at ~50 MB)


def budget(tier):
    return 15000 if tier == "quick" else 400000


def scratch_dir():
    root = os.environ.get("VERIF_SCRATCH") or ("/dev/shm" if os.path.isdir("/dev/shm") else None)
    from hv.core import case_dir

    return case_dir("c11", root)


# ------------------------------------------------------------------------------------------- seeds
def _q2(**kw):
    spec = {"version": 3, "cluster_bits": 12, "size": 40 << 12, "header_length": 112, "ext_l2": False, "data_file": False,
            "clusters": [[0, "n", 0, None], [1, "c", 0, 0], [2, "z", 0, None], [9, "n", 2, None]], "l2_interleave": False, "l2_slots": {},
            "meta_order": ["l1", "refcount", "snap", "l2"], "far_base": 0, "copied": True, "comp_shift": 3, "cgaps": [5], "comp_far": 0, "layer": 0}
    spec.update(kw)
    return bq.build(spec)[0].materialize()


def deflate_bomb(raw: bool, expanded: int) -> bytes:
    c = zlib.compressobj(9, zlib.DEFLATED, -12 if raw else 15)
    out = []
    chunk = bytes(1 << 20)
    for _ in range(expanded >> 20):
        out.append(c.compress(chunk))
    out.append(c.flush())
    return b"".join(out)


@functools.lru_cache(maxsize=None)
def vmdk_bomb(form: str, marker_lba: int = 0) -> bytes:
    """A stream-optimised extent with one compressed grain whose stream expands to 128 MiB; the stream is zlib-wrapped (as the
    format has it), a raw deflate stream, or gzip-wrapped (what a lenient reader might also accept)."""
    import gzip as _gzip

    def vm(kind, **kw):
        spec = {"kind": kind, "capacity": 200, "grain": 8, "present_gts": [], "pad": 0, "layer": 0,
                "gtes": 16, "zero_flag": False, "redundant": False, "meta_first": True}
        spec.update(kw)
        return bvmdk.build(spec)[0].materialize()

    gb = bytearray(vm("kdmv", compressed=True, footer=False, embedded_lba=True, version=3, grains=[[0, "a", 0]]))
    zb = {"zlib": lambda: zlib.compress(bytes(128 << 20), 9), "raw": lambda: deflate_bomb(True, 128 << 20),
          "gzip": lambda: _gzip.compress(bytes(128 << 20), 9, mtime=0)}[form]()
    for off in range(512, len(gb) - 12, 512):
        lba, clen = struct.unpack_from("<QI", gb, off)
        if lba == 0 and 0 < clen < 8192 and gb[off + 12 : off + 14] in (b"\x78\x9c", b"\x78\xda", b"\x78\x01", b"\x78\x5e"):
            grain_sector = off // 512
            break
    pos = len(gb)
    gb.extend(struct.pack("<QI", marker_lba & 0xFFFFFFFFFFFFFFFF, len(zb)) + zb)  # the marker's own LBA field: any value (capacity is 200)
    gb.extend(bytes(-len(gb) % 512))
    # point the grain table entry at the bomb
    for off in range(0, pos - 4, 4):
        if struct.unpack_from("<I", gb, off)[0] == grain_sector and off >= 512:
            struct.pack_into("<I", gb, off, pos // 512)
    return bytes(gb)


@functools.lru_cache(maxsize=None)
def seeds():
    s = {}
    s["qcow2"] = ("qcow2", _q2(), 1 << 12, bq.HEADER_FIELDS)
    s["qcow2-v2"] = ("qcow2", _q2(version=2, clusters=[[0, "n", 0, None], [1, "c", 0, 0]]), 1 << 12, bq.HEADER_FIELDS)
    s["qcow2-extl2"] = ("qcow2", _q2(cluster_bits=14, size=20 << 14, ext_l2=True,
                                      clusters=[[0, "n", 0, [0xFFFF, 0xFF0000]], [1, "z", 0, [0, 0xF0]], [3, "n", 1, [0xFFFFFFFF, 0]]]), 1 << 14, bq.HEADER_FIELDS)
    s["qcow2-snap"] = ("qcow2", _q2(snapshots=[{"id": "1", "name": "one", "extra_size": 16, "clusters": [[0, "n", 0, None]], "share_active": False},
                                               {"id": "2", "name": "two", "extra_size": 24, "clusters": [], "share_active": True}]), 1 << 12, bq.HEADER_FIELDS)
    # QCOW2 bomb: a compressed cluster whose deflate stream expands to 128 MiB (cluster size 64 KiB, 256 compressed sectors max)
    bomb = deflate_bomb(True, 128 << 20)[: 255 * 512]
    img = bytearray(_q2(cluster_bits=16, size=8 << 16, clusters=[[0, "c", 0, 0], [1, "n", 0, None]]))
    l2_off = None
    # find the compressed L2 entry (bit 62 set) and redirect it to the bomb appended at the end
    for off in range(0, len(img) - 8, 8):
        v = struct.unpack_from(">Q", img, off)[0]
        if v >> 62 == 1 and (v & ((1 << 54) - 1)) < len(img) and off >= 1 << 16:
            l2_off = off
            break
    pos = (len(img) + 511) // 512 * 512
    img.extend(bytes(pos - len(img)) + bomb)
    nb = ((pos + len(bomb) - 1) >> 9) - (pos >> 9)
    struct.pack_into(">Q", img, l2_off, (1 << 62) | (nb << 54) | pos)
    s["qcow2-bomb"] = ("qcow2", bytes(img), 1 << 16, {})

    def vm(kind, **kw):
        spec = {"kind": kind, "capacity": 200, "grain": 8, "grains": [[0, "a", 0], [3, "a", 2], [4, "z" if kw.get("zero_flag") else "a", 1], [20, "a", 3]],
                "present_gts": [], "pad": 0, "layer": 0}
        if kind == "kdmv":
            spec.update(gtes=16, compressed=False, zero_flag=False, redundant=False, meta_first=True, version=1)
        if kind == "sesparse":
            spec.update(gt_sectors=1, gd_slack=0, index_base=0)
        spec.update(kw)
        return bvmdk.build(spec)[0].materialize()

    s["vmdk-kdmv"] = ("vmdk", vm("kdmv", zero_flag=True, descriptor=bvmdk.descriptor_text({"extents": [{"sectors": 200, "type": "SPARSE", "file": "x.vmdk"}]})), 4096, bvmdk.KDMV_FIELDS)
    s["vmdk-stream"] = ("vmdk", vm("kdmv", compressed=True, footer=True, embedded_lba=True, version=3), 4096, bvmdk.KDMV_FIELDS)
    s["vmdk-cowd"] = ("vmdk", vm("cowd"), 4096, bvmdk.COWD_FIELDS)
    s["vmdk-sesparse"] = ("vmdk", vm("sesparse"), 4096, bvmdk.SES_FIELDS)
    # VMDK bomb: one compressed grain whose stream expands to 128 MiB
    s["vmdk-bomb"] = ("vmdk", vmdk_bomb("zlib"), 4096, {})
    s["vmdk-descriptor"] = ("vmdk-desc", bvmdk.descriptor_text({"extents": [{"sectors": 64, "type": "SPARSE", "file": "e.vmdk"}, {"sectors": 8, "type": "FLAT", "file": "f.vmdk", "offset": 0}],
                                                               "ddb": {"ddb.adapterType": "ide"}}).encode(), 4096, {})
    vx = c12.base_vhdx()
    vxf = {"fileid": (0, 8), "h1.sig": (65536, 4), "h1.seq": (65536 + 8, 8), "h2.sig": (131072, 4), "h2.seq": (131072 + 8, 8), "h2.log_length": (131072 + 68, 4),
           "h2.log_offset": (131072 + 72, 8), "rt.sig": (196608, 4), "rt.count": (196608 + 8, 4), "rt.e0.off": (196608 + 32, 8), "rt.e0.len": (196608 + 40, 4),
           "rt.e1.off": (196608 + 64, 8), "rt.e1.len": (196608 + 72, 4), "md.sig": (2 << 20, 8), "md.count": ((2 << 20) + 10, 2)}
    for i in range(5):
        vxf[f"md.e{i}.off"] = ((2 << 20) + 32 + 32 * i + 16, 4)
        vxf[f"md.e{i}.len"] = ((2 << 20) + 32 + 32 * i + 20, 4)
    for i in range(5):
        vxf[f"md.item{i}"] = ((2 << 20) + 65536 + 8 * i, 4)
    for i in range(3):
        vxf[f"bat.{i}"] = ((3 << 20) + 8 * i, 8)
    s["vhdx"] = ("vhdx", vx, 1 << 20, vxf)
    vhd_dyn = bvhd.build({"kind": "dynamic", "size": 5 * 4096 + 512, "legacy_footer": False, "block_size": 4096, "dyn_offset": 512, "table_offset": 1536,
                          "alloc": [[0, 5], [2, 20], [5, 40]], "layer": 0})[0].materialize()
    f = {"copy." + k: v for k, v in bvhd.FOOTER_FIELDS.items()}
    f.update({"dyn." + k: (512 + o, w) for k, (o, w) in bvhd.DYN_FIELDS.items()})
    f.update({"end." + k: (len(vhd_dyn) - 512 + o, w) for k, (o, w) in bvhd.FOOTER_FIELDS.items()})
    f.update({f"bat.{i}": (1536 + 4 * i, 4) for i in range(6)})
    s["vhd-dyn"] = ("vhd", vhd_dyn, 4096, f)
    vhd_fix = bvhd.build({"kind": "fixed", "size": 20480, "legacy_footer": False, "holes": [], "layer": 0})[0].materialize()
    s["vhd-fixed"] = ("vhd", vhd_fix, 512, {"end." + k: (len(vhd_fix) - 512 + o, w) for k, (o, w) in bvhd.FOOTER_FIELDS.items()})
    vdi = dict(bvdi.FIELDS)
    vdi.update({f"map.{i}": (512 + 4 * i, 4) for i in range(3)})
    s["vdi"] = ("vdi", c12.base_vdi(), 4096, vdi)
    for v in (1, 2):
        hf = dict(bhdd.FIELDS)
        hf.update({f"bat.{i}": (64 + 4 * i, 4) for i in range(3)})
        s[f"hds-v{v}"] = ("hds", c12.base_hds(v), 4096, hf)
    hv, replay = c12.base_hyperv()
    hvf = {"h1.sig": (0, 4), "h1.seq": (8, 2), "h1.version": (10, 4), "h1.alignment": (22, 4), "h1.replay_off": (26, 8), "h1.replay_size": (34, 8),
           "h2.seq": (0x1000 + 8, 2), "ot.sig": (0x2000, 4), "ot.count": (0x2004, 4), "rl.sig": (replay, 4), "rl.count": (replay + 8, 4),
           "kt.sig": (0x3000, 2), "kt.index": (0x3002, 2), "kt.seq": (0x3004, 2)}
    for i in range(4):
        hvf[f"ot.e{i}.type"] = (0x2008 + 18 * i, 1)
        hvf[f"ot.e{i}.off"] = (0x2008 + 18 * i + 5, 8)
        hvf[f"ot.e{i}.size"] = (0x2008 + 18 * i + 13, 4)
        hvf[f"ot.e{i}.alloc"] = (0x2008 + 18 * i + 17, 1)
    for base in (0x300A, 0x300A + 47):
        hvf[f"ke{base:x}.type"] = (base, 2)
        hvf[f"ke{base:x}.size"] = (base + 2, 4)
        hvf[f"ke{base:x}.ptable"] = (base + 6, 2)
        hvf[f"ke{base:x}.poff"] = (base + 8, 4)
        hvf[f"ke{base:x}.doff"] = (base + 20, 1)
    s["hyperv"] = ("hyperv", hv, 4096, hvf)
    env = c12.base_envelope()
    s["envelope"] = ("envelope", env, 4096, {"magic": (0, 21), "size": (504, 4), "version": (508, 4), "a0.type": (512, 1), "a0.len": (526, 8),
                                             "aead.size": (len(env) - 8, 4), "aead.version": (len(env) - 4, 4), "crypto.padding": (len(env) - 4096 - 8, 4)})
    ks, _k, _i = benv.keystore_text({"key_id": bytes(16).hex(), "data1": "aa", "data2": "bb"})
    s["keystore"] = ("keystore", ks.replace('mode = "NONE"', 'mode = "NONE"').encode(), 4096, {})
    s["vmx"] = ("vmx", b'.encoding = "UTF-8"\nscsi0:0.fileName = "a.vmdk"\nscsi0:0.deviceType = "scsi-hardDisk"\nide1:0.fileName = "c.iso"\nide1:0.deviceType = "cdrom-image"\n', 4096, {})
    s["vmx-encrypted"] = ("vmx", bvx.build(c12.VMX_SPEC)[0].encode(), 4096, {})
    tar_spec = {"members": [{"kind": "visor-dir", "name": "etc", "longname": None, "mode": 0o755, "mtime": 1},
                            {"kind": "visor-file", "name": "etc/a", "longname": None, "mode": 0o644, "mtime": 1, "size": 700, "key": 3, "text_pgs": 0, "fixup_pgs": 0},
                            {"kind": "std-file", "name": "b", "longname": None, "mode": 0o644, "mtime": 1, "size": 100, "key": 4},
                            {"kind": "visor-file", "name": "etc/" + "d" * 30 + "/" + "e" * 90, "longname": "gnu", "mode": 0o644, "mtime": 1, "size": 5000, "key": 5, "text_pgs": 1, "fixup_pgs": 0}],
                "data_order": [3, 1], "align": 4096, "gap": 0, "end_blocks": 2, "trailing": 0, "gzip": False, "via": "fileobj"}
    raw, _e = c20.build(tar_spec)
    tf = {}
    for i in range(6):
        tf[f"hdr{i}.size"] = (512 * i + 124, 12)
        tf[f"hdr{i}.off"] = (512 * i + 496, 4)
        tf[f"hdr{i}.chk"] = (512 * i + 148, 8)
        tf[f"hdr{i}.type"] = (512 * i + 156, 1)
    s["vmtar"] = ("vmtar", raw, 4096, tf)
    s["vmtar-gz"] = ("vmtar", gzip.compress(raw, 6, mtime=0), 4096, {})
    s["hdd-descriptor"] = ("hdd", None, 4096, {})
    return s


@functools.lru_cache(maxsize=None)
def vmdk_bomb_with_footer(front_grain: int) -> bytes:
    """A stream-optimised VMDK (8-sector grains) whose only grain inflates to 128 MiB; the grain directory is named by the footer,
    the front header defers to it (gd_offset -1) and carries `front_grain` as its own, superseded, grain size."""
    zb = zlib.compress(bytes(128 << 20), 9)
    spec = {"capacity": 64, "grain": 8, "gtes": 512, "compressed": True, "embedded_lba": True, "version": 3}
    out = bytearray(1024)  # header + one spare sector: grain table entries 0 and 1 are the format's own sentinels
    grain_sector = len(out) // 512
    out += struct.pack("<QI", 0, len(zb)) + zb
    out += bytes(-len(out) % 512)
    out += bvmdk.marker(4, 1)  # grain table marker
    gt_sector = len(out) // 512
    out += struct.pack("<I", grain_sector).ljust(512 * 4, b"\x00")
    out += bvmdk.marker(1, 2)  # grain directory marker
    gd_sector = len(out) // 512
    out += struct.pack("<I", gt_sector).ljust(512, b"\x00")
    out += bvmdk.marker(1, 3)  # footer marker
    out += bvmdk.kdmv_header(spec, gd_sector, 0, 1, 0, 0)
    out += bvmdk.marker(0, 0)  # end of stream
    out[:512] = bvmdk.kdmv_header(dict(spec, grain=front_grain), 0xFFFFFFFFFFFFFFFF, 0, 1, 0, 0)
    return bytes(out)


def tar_rechecksum(b: bytearray, blocks: int = 64) -> None:
    """Recompute the header checksum of every block that still looks like a tar header (mutated fields behind a valid checksum)."""
    for i in range(min(blocks, len(b) // 512)):
        blk = b[512 * i : 512 * i + 512]
        if blk[257:262] in (b"ustar", b"visor"):
            blk[148:156] = b" " * 8
            blk[148:156] = b"%06o\x00 " % sum(blk)
            b[512 * i : 512 * i + 512] = blk


def vmtar_pax_cycle(lead: int, size: int, target: int) -> bytes:
    """`lead` ordinary empty members, then an extended (pax) header with a size record in front of a visor member whose data
    offset is chosen such that data offset + padded size is the position of header block number `target` (itself or an earlier one)."""
    import tarfile

    out = bytearray()
    for i in range(lead):
        out += tarfile.TarInfo(f"lead{i}").tobuf(tarfile.USTAR_FORMAT)
    ti = tarfile.TarInfo("member")
    ti.size = size
    ti.pax_headers = {"size": str(size)}
    blk = bytearray(ti.tobuf(tarfile.PAX_FORMAT))
    real = len(blk) - 512
    padded = -(-size // 512) * 512
    blk[real + 257 : real + 265] = b"visor  \0"
    off = 512 * target - padded
    struct.pack_into("<I", blk, real + 496, off if off > 0 else 512 * target + 1)
    out += blk
    tar_rechecksum(out)
    return bytes(out) + bytes(1024) + bytes(range(256)) * 8


@functools.lru_cache(maxsize=None)
def biggrain_vmdk(ngrains=48, grain=8192):
    """A stream-optimised VMDK of a few hundred KiB with `ngrains` compressed 4 MiB grains (a valid grain size), each a run of
    one byte value: what a reader keeps around after serving earlier requests shows up in the peak of a sweep over it."""
    out = bytearray(512)
    gt = []
    for i in range(ngrains):
        comp = zlib.compress(bytes([i + 1]) * (grain * 512), 1)
        gt.append(len(out) // 512)
        out += struct.pack("<QI", i * grain, len(comp)) + comp
        out += bytes(-len(out) % 512)
    gt_sector = len(out) // 512
    out += struct.pack(f"<{len(gt)}I", *gt).ljust(512 * 4, b"\x00")
    gd_sector = len(out) // 512
    out += struct.pack("<I", gt_sector).ljust(512, b"\x00")
    spec = {"capacity": ngrains * grain, "grain": grain, "gtes": 512, "compressed": True, "embedded_lba": True, "version": 3}
    out[:512] = bvmdk.kdmv_header(spec, gd_sector, 0, 1, 0, 0)
    return bytes(out)


TEXT_SEEDS = ["vmx", "vmx-encrypted", "keystore", "vmdk-descriptor"]
SEED_NAMES = ["qcow2", "qcow2-v2", "qcow2-extl2", "qcow2-snap", "qcow2-bomb", "vmdk-kdmv", "vmdk-stream", "vmdk-cowd", "vmdk-sesparse", "vmdk-bomb",
              "vmdk-descriptor", "vhdx", "vhd-dyn", "vhd-fixed", "vdi", "hds-v1", "hds-v2", "hyperv", "envelope", "keystore", "vmx", "vmx-encrypted",
              "vmtar", "vmtar-gz", "hdd-descriptor"]


# ------------------------------------------------------------------------------------------- mutations
def special_values(cur, width, off, size, others, small=()):
    top = (1 << (8 * width)) - 1
    vals = {0, 1, 2, top, top - 1, (cur + 1) & top, (cur - 1) & top, off & top, size & top, (size - 1) & top, (size // 512) & top, 1 << (8 * width - 1)}
    vals |= {o & top for o in others[:4]}
    # two's complements of the small sizes / distances that occur in the seed ("minus the length of the entry before")
    vals |= {(-v) & top for v in small} | {(-cur) & top}
    vals.discard(cur)
    return sorted(vals)


def field_order(name):
    return "big" if name in ("qcow2", "vhd") else "little"


def exhaustive(tier):
    for sname in SEED_NAMES:
        kind, data, unit, fields = seeds()[sname]
        if not fields or data is None:
            continue
        others = sorted({o for o, _w in fields.values()})
        order = field_order(kind)
        small = sorted({int.from_bytes(data[o : o + w], order) for o, w in fields.values() if o + w <= len(data)} & set(range(3, 4097)))[:12]
        for fname, (off, width) in fields.items():
            if off + width > len(data):
                continue
            cur = int.from_bytes(data[off : off + width], order)
            lengthy = width >= 4 and any(t in fname.lower() for t in ("size", "len", "off", "count"))
            for v in special_values(cur, width, off, len(data), others, small if lengthy else ()):
                yield {"seed": sname, "ops": [["set", off, width, v, order]], "field": fname}
                if sname == "vmtar" and not fname.endswith(".chk"):
                    yield {"seed": sname, "ops": [["set", off, width, v, order]], "field": fname, "rechk": True}
    # crafted cycles and bombs
    for n in range(1, 5):
        for lead in (0, 1):
            yield {"seed": "hdd-descriptor", "ops": [], "cycle": n, "lead_in": lead}
    for variant in ("self", "mutual", "chain-back"):
        yield {"seed": "hyperv", "ops": [], "hv_cycle": variant}
        # the same references a little off the data alignment (a reader that rounds them lands on the same tables)
        for delta in (-0xFFF, -0x800, -1, 1, 0x7FF, 0xFFF):
            yield {"seed": "hyperv", "ops": [], "hv_cycle": variant, "hv_delta": delta}
    for variant in ("parent-self", "parent-mutual", "dup-keytable"):
        yield {"seed": "hyperv", "ops": [], "hv_cycle": variant}
    # a huge allocation unit together with a huge disk size: zero fills must still be sized by the request
    pairs = {
        "vdi": [("BlockSize", 1 << 30), ("DiskSize", 1 << 40), ("BlocksInHDD", 3)],
        "hds-v2": [("m_Sectors", 1 << 21), ("m_SizeInSectors", 1 << 40)],
        "hds-v1": [("m_Sectors", 1 << 21), ("m_SizeInSectors", (1 << 32) - 1)],
        "vhd-dyn": [("dyn.block_size", 1 << 30), ("end.current_size", 1 << 40), ("copy.current_size", 1 << 40)],
        "vhdx": [("md.item0", 1 << 28), ("md.item1", 0xFFFFF000)],
        "vmdk-kdmv": [("grain_size", 1 << 21), ("capacity", 1 << 40)],
        "vmdk-stream": [("grain_size", 1 << 21), ("capacity", 1 << 40)],
        "vmdk-cowd": [("grain_size", 1 << 21), ("capacity", (1 << 32) - 1)],
        "vmdk-sesparse": [("grain_size", 1 << 21), ("capacity", 1 << 40)],
        "qcow2": [("cluster_bits", 21), ("size", 1 << 50)],
    }
    for sname, sets in pairs.items():
        kind, data, unit, fields = seeds()[sname]
        order = field_order(kind)
        ops = []
        for fname, v in sets:
            off, width = fields[fname]
            ops.append(["set", off, width, v & ((1 << (8 * width)) - 1), order])
        for sub in (ops, ops[:1], ops[1:]):
            yield {"seed": sname, "ops": sub, "field": "big-unit"}
        # the same with every known map / BAT entry marked unallocated, so that the zero-fill path is taken
        hole = {"vdi": ("map.", 0xFFFFFFFF), "hds-v2": ("bat.", 0), "hds-v1": ("bat.", 0), "vhd-dyn": ("bat.", 0xFFFFFFFF), "vhdx": ("bat.", 0)}.get(sname)
        if hole:
            extra = []
            for fname, (off, width) in fields.items():
                if fname.startswith(hole[0]):
                    extra.append(["set", off, width, hole[1] & ((1 << (8 * width)) - 1), order])
            yield {"seed": sname, "ops": ops + extra, "field": "big-unit-holes"}
            yield {"seed": sname, "ops": ops[:1] + extra, "field": "big-unit-holes"}
    # differencing VHDX files opened by path whose parent locators form a cycle of length 1..3
    for n in (1, 2, 3):
        yield {"seed": "hdd-descriptor", "ops": [], "vhdx_parent_cycle": n}
    # Parallels storages that do not join up (a hole, an overlap, reversed bounds) and a read across the seam
    for variant in ("gap", "overlap", "reversed", "zero-length"):
        yield {"seed": "hdd-descriptor", "ops": [], "hdd_storages": variant}
    # long runs of one character inserted at the structural positions of the text formats (regular-expression back-tracking)
    for sname in TEXT_SEEDS:
        text = seeds()[sname][1]
        pos = [i + 1 for i, c in enumerate(text) if c in b"(),/=\"%:"]
        pos = sorted(set(pos[:: max(1, len(pos) // 24)] + [0, len(text)]))
        for off in pos:
            for ch in (" ", "\t", "(", "a", "%", "/"):
                for count in (40, 3000):
                    yield {"seed": sname, "ops": [["insert", off, ch, count]], "field": "run-insert"}
    # a stream-optimised bomb whose front header copy (superseded by the footer) names another grain size
    for front in (0, 1, 1 << 21, (1 << 64) - 1):
        yield {"seed": "vmdk-bomb", "ops": [], "craft": "bomb-footer", "front_grain": front}
    # VMDK descriptors whose parent hints lead back into a cycle; the hint names the directory the descriptor lives in,
    # is a bare file name, or an absolute path
    for n in (1, 2):
        for style in ("dir", "bare", "abs"):
            yield {"seed": "hdd-descriptor", "ops": [], "vmdk_parent_cycle": n, "hint": style}
    # a header-extension area in which every 8 bytes are the header of an unknown extension of enormous length, with a backing
    # file offset far behind the end of the file so that the lengths pass the bounds test
    for ln in (1 << 28, 3 << 28, 1 << 31, 0xFFFFFFF8, 0xFFFFFFFF, 8, 0):
        for bfo in (1 << 40, (1 << 28) + 4096, 0):
            yield {"seed": "qcow2", "ops": [], "craft": "ext-flood", "ext_len": ln, "bfo": bfo}
    # an extended header with a size record in front of a visor member whose data offset leads back to an earlier header
    for lead in (0, 1, 2, 4):
        for size in (0, 1, 700):
            for target in range(0, lead + 3):
                yield {"seed": "vmtar", "ops": [], "craft": "pax-cycle", "lead": lead, "size": size, "target": target}
    yield {"seed": "qcow2-bomb", "ops": []}
    yield {"seed": "vmdk-bomb", "ops": []}
    # the same bomb as a raw deflate stream and as a gzip member (stream wrappers a lenient reader might fall back to)
    for form in ("raw", "gzip"):
        yield {"seed": "vmdk-bomb", "ops": [], "craft": "bomb-stream", "form": form}
    for lba in (1, 8, 192, 199, 200, 201, 208, 1 << 32, 1 << 63, (1 << 64) - 1, (1 << 64) - 8):
        # the bomb behind a grain marker whose embedded LBA is at / next to the capacity or wraps: bounds derived from that field
        yield {"seed": "vmdk-bomb", "ops": [], "craft": "bomb-stream", "form": "zlib", "lba": lba}
    # memory must follow the request at hand, not the number of earlier requests: sweep over many large compressed grains
    yield {"seed": "vmdk-stream", "ops": [], "craft": "biggrain-sweep"}
    for depth, width in ((18, 2), (12, 3), (24, 2)):
        yield {"seed": "vmdk-descriptor", "ops": [], "vmdk_deep_chain": depth, "width": width}
    for opt in ("rounds", "iterations", "iter", "count", "cost", "version", "keyId", "data3"):
        for val in ("2147483647", "1000000000000", "-1", "0"):
            # a keystore whose ConfigEncData carries one more option: the derivation cost is the format's constant, not the file's choice
            yield {"seed": "keystore", "ops": [], "craft": "keystore-option", "opt": opt, "val": val}
    yield {"seed": "qcow2", "ops": [], "craft": "l1-to-header"}
    yield {"seed": "vhdx", "ops": [], "craft": "region-to-itself"}


@st.composite
def strategy_(draw, tier):
    sname = draw(st.sampled_from([s for s in SEED_NAMES if s != "hdd-descriptor"]))
    kind, data, unit, fields = seeds()[sname]
    n = len(data)
    ops = []
    nops = draw(st.sampled_from([1, 1, 1, 2, 3]))
    meta_end = min(n, 8192 if kind not in ("vhdx", "hyperv") else n)
    for _ in range(nops):
        k = draw(st.sampled_from(["word", "word", "field", "trunc", "corrupt", "splice", "bitflip"] + (["insert", "insert", "insert"] if sname in TEXT_SEEDS else [])))
        if k == "insert":
            ops.append(["insert", draw(st.integers(0, n)), draw(st.sampled_from([" ", "\t", "(", ")", "a", "%", "/", "\"", "\n", ","])),
                        draw(st.sampled_from([25, 40, 200, 3000]))])
            continue
        if k == "field" and fields:
            fname = draw(st.sampled_from(sorted(fields)))
            off, width = fields[fname]
            order = field_order(kind)
            if off + width <= n:
                cur = int.from_bytes(data[off : off + width], order)
                v = draw(st.one_of(st.sampled_from(special_values(cur, width, off, n, sorted({o for o, _w in fields.values()}))), st.integers(0, (1 << (8 * width)) - 1)))
                ops.append(["set", off, width, v, order])
        elif k == "word":
            width = draw(st.sampled_from([4, 8, 2]))
            off = draw(st.integers(0, max(0, meta_end - width))) // width * width
            if sname in ("vhdx",):
                off = draw(st.sampled_from([0, 65536, 131072, 196608, 2 << 20, (2 << 20) + 65536, 3 << 20])) + draw(st.integers(0, 128)) // 4 * 4
            order = draw(st.sampled_from(["little", "big"]))
            v = draw(st.one_of(st.sampled_from([0, 1, 2, 0xFF, 0xFFFF, 0xFFFFFFFF, 0x7FFFFFFF, n, n - 1, off, 512, 4096]), st.integers(0, (1 << (8 * width)) - 1)))
            if off + width <= n:
                ops.append(["set", off, width, v & ((1 << (8 * width)) - 1), order])
        elif k == "trunc":
            cut = draw(st.one_of(st.sampled_from([0, 1, 4, 71, 72, 103, 104, 511, 512, 513, 1023, 1024, 4095, 4096, n - 1, n - 511, n - 512, n - 513, n - 1024, n - 4096, n // 2]), st.integers(0, n)))
            ops.append(["trunc", max(0, min(n, cut))])
        elif k == "corrupt":
            off = draw(st.integers(0, max(0, n - 1)))
            ops.append(["corrupt", off, draw(st.binary(min_size=1, max_size=16)).hex()])
        elif k == "splice":
            ln = draw(st.sampled_from([4, 8, 64, 512]))
            ops.append(["splice", draw(st.integers(0, max(0, n - ln))), draw(st.integers(0, max(0, n - ln))), ln])
        else:
            off = draw(st.integers(0, max(0, meta_end - 1)))
            ops.append(["xor", off, 1 << draw(st.integers(0, 7))])
    spec = {"seed": sname, "ops": ops}
    if sname == "vmtar" and draw(st.booleans()):
        spec["rechk"] = True  # header checksums recomputed after the mutation: the mutated field is reached instead of refused
    return spec


def strategy(tier):
    return strategy_(tier)


def apply_ops(data: bytes, ops) -> bytes:
    b = bytearray(data)
    for op in ops:
        if op[0] == "set":
            _, off, width, v, order = op
            if off + width <= len(b):
                b[off : off + width] = int(v).to_bytes(width, order)
        elif op[0] == "trunc":
            del b[op[1] :]
        elif op[0] == "corrupt":
            raw = bytes.fromhex(op[2])
            off = min(op[1], max(0, len(b) - 1))
            b[off : off + len(raw)] = raw[: max(0, len(b) - off)]
        elif op[0] == "splice":
            _, dst, src, ln = op
            if src + ln <= len(b) and dst + ln <= len(b):
                b[dst : dst + ln] = b[src : src + ln]
        elif op[0] == "xor":
            if op[1] < len(b):
                b[op[1]] ^= op[2]
        elif op[0] == "insert":
            _, off, ch, count = op
            off = min(off, len(b))
            b[off:off] = ch.encode() * count
    return bytes(b)


# ------------------------------------------------------------------------------------------- drivers
def touch_stream(s):
    size = s.size
    got = 0
    for off in (0, max(0, size // 2), max(0, size - REQ)):
        s.seek(off)
        got += len(s.read(REQ))
    return got


def drive(kind, data: bytes, spec):
    """Open + touch the public surface.  Exceptions are fine (returns-or-raises); returns a marker of how far it got."""
    stage = "open"
    if kind == "qcow2":
        from dissect.hypervisor.disk.qcow2 import ALLOW_NO_BACKING_FILE, QCow2

        q = QCow2(core_track(data), backing_file=ALLOW_NO_BACKING_FILE)
        stage = "opened"
        touch_stream(q)
        for snap in list(q.snapshots)[:4]:
            touch_stream(snap.open())
    elif kind == "vmdk":
        from dissect.hypervisor.disk.vmdk import VMDK

        v = VMDK(core_track(data))
        stage = "opened"
        touch_stream(v)
        if spec.get("craft") == "biggrain-sweep":
            for off in range(0, v.size, 8192 * 512):  # one request per grain, front to back
                v.seek(off + 512)
                v.read(REQ)
    elif kind == "vmdk-desc":
        from dissect.hypervisor.disk.vmdk import DiskDescriptor

        d = DiskDescriptor.parse(data.decode("utf-8", "replace"))
        stage = "opened"
        str(d)
    elif kind == "vhdx":
        from dissect.hypervisor.disk.vhdx import VHDX

        v = VHDX(io.BytesIO(data))
        stage = "opened"
        touch_stream(v)
    elif kind == "vhd":
        from dissect.hypervisor.disk.vhd import VHD

        v = VHD(io.BytesIO(data))
        stage = "opened"
        touch_stream(v)
    elif kind == "vdi":
        from dissect.hypervisor.disk.vdi import VDI

        v = VDI(io.BytesIO(data))
        stage = "opened"
        touch_stream(v)
    elif kind == "hds":
        from dissect.hypervisor.disk.hdd import HDS

        v = HDS(io.BytesIO(data))
        stage = "opened"
        touch_stream(v)
    elif kind == "hyperv":
        from dissect.hypervisor.descriptor.hyperv import HyperVFile

        hf = HyperVFile(core_track(data))
        stage = "opened"
        hf.as_dict()
    elif kind == "envelope":
        from dissect.hypervisor.util.envelope import Envelope

        e = Envelope(core_track(data))
        stage = "opened"
        e.decrypt(bytes.fromhex(c12.ENV_SPEC["key"]))
    elif kind == "keystore":
        from dissect.hypervisor.util.envelope import KeyStore

        text = data.decode("utf-8", "replace")
        if re.search(r"mode\s*=\s*\"?NONE", text) and "ConfigEncData" in text and spec.get("craft") != "keystore-option":
            text = text.replace("NONE", "N0NE")  # 100k PBKDF2 rounds per case are C16's business; exercise the parser only
        KeyStore.from_text(text)
        stage = "opened"
    elif kind == "vmx":
        from dissect.hypervisor.descriptor.vmx import VMX

        text = data.decode("utf-8", "replace")
        v = VMX.parse(text)
        stage = "opened"
        v.disks()
        if v.encrypted:
            m = re.search(r"rounds(?:%3d|=)(\d+)", v.attr.get("encryption.keysafe", ""))
            if not m or int(m.group(1)) <= 10**6:
                v.unlock_with_phrase("secret")
    elif kind == "vmtar":
        from dissect.hypervisor.util import vmtar

        try:
            t = vmtar.open(fileobj=core_track(data))
            stage = "opened"
            for m in t.getmembers()[:50]:
                if m.isreg():
                    f = t.extractfile(m)
                    if f is not None:
                        f.read(REQ)
        except CaseTimeout as e:
            # vmtar.open returns a standard-library TarFile configured with the library's member class: time spent in there is
            # the library's although no library frame is on the stack at that moment
            e.in_lib_call = "vmtar.py:open(tarfile)"
            raise
    return stage


def vhdx_parent_cycle_case(spec):
    from dissect.hypervisor.disk.vhdx import VHDX

    n = spec["vhdx_parent_cycle"]
    d = scratch_dir()
    try:
        for i in range(n):
            child = dict(c12.VHDX_SPEC, has_parent=True, blocks=[], meta_order=[0, 1, 2, 3, 4, 5],
                         locator=[["relative_path", f".\\f{(i + 1) % n}.vhdx"]])
            bvhdx.build(child)[0].write_to(os.path.join(d, f"f{i}.vhdx"))
        v = VHDX(Path(d) / "f0.vhdx")
        touch_stream(v)
    finally:
        shutil.rmtree(d, ignore_errors=True)


def vmdk_parent_cycle_case(spec):
    from dissect.hypervisor.disk.vmdk import VMDK

    n, style = spec["vmdk_parent_cycle"], spec["hint"]
    top = scratch_dir()
    try:
        d = os.path.join(top, "vm")
        os.mkdir(d)
        for i in range(n):
            nxt = f"disk{(i + 1) % n}.vmdk"
            hint = {"dir": "vm/" + nxt, "bare": nxt, "abs": os.path.join(d, nxt)}[style]
            with open(os.path.join(d, f"disk{i}.vmdk"), "w") as f:
                f.write(bvmdk.descriptor_text({"parent_cid": "11223344", "parent_hint": hint, "extents": [
                    {"sectors": 16, "type": "FLAT", "file": "flat.bin", "offset": 0}]}))
        with open(os.path.join(d, "flat.bin"), "wb") as f:
            f.write(bytes(16 * 512))
        v = VMDK(Path(d) / "disk0.vmdk")
        touch_stream(v)
    finally:
        shutil.rmtree(top, ignore_errors=True)


def vmdk_deep_chain_case(spec):
    """An ordinary (acyclic) snapshot chain, `depth` descriptors deep, every level made of `width` sparse extents: the work to open
    it is linear in the number of files, whatever the shape."""
    from dissect.hypervisor.disk.vmdk import VMDK

    depth, width = spec["vmdk_deep_chain"], spec["width"]
    ext = bvmdk.build({"kind": "kdmv", "capacity": 16, "grain": 8, "present_gts": [], "pad": 0, "layer": 0, "gtes": 16, "zero_flag": False,
                       "redundant": False, "meta_first": True, "compressed": False, "footer": False, "version": 1, "grains": []})[0].materialize()
    top = scratch_dir()
    try:
        for j in range(width):
            with open(os.path.join(top, f"e{j}.vmdk"), "wb") as f:
                f.write(ext)
        for i in range(depth):
            last = i == depth - 1
            with open(os.path.join(top, f"disk{i}.vmdk"), "w") as f:
                f.write(bvmdk.descriptor_text({"parent_cid": "ffffffff" if last else "11223344", "parent_hint": None if last else f"disk{i + 1}.vmdk",
                                               "extents": [{"sectors": 16, "type": "SPARSE", "file": f"e{j}.vmdk"} for j in range(width)]}))
        v = VMDK(Path(top) / "disk0.vmdk")
        touch_stream(v)
    finally:
        shutil.rmtree(top, ignore_errors=True)


def hdd_storages_case(spec):
    from dissect.hypervisor.disk.hdd import HDD

    bounds = {"gap": [(0, 24), (32, 56)], "overlap": [(0, 24), (16, 40)], "reversed": [(0, 24), (48, 24)],
              "zero-length": [(0, 24), (24, 24), (24, 48)]}[spec["hdd_storages"]]
    d = scratch_dir()
    try:
        root = os.path.join(d, "x.hdd")
        os.mkdir(root)
        with open(os.path.join(root, "x.hds"), "wb") as f:
            f.write(c12.base_hds(2))
        desc = {"disk_size": max(b for _a, b in bounds), "storages": [
            {"start": a, "end": b, "images": [{"guid": bhdd.DEFAULT_TOP, "type": "Compressed", "file": "x.hds"}]} for a, b in bounds],
            "shots": [{"guid": bhdd.DEFAULT_TOP, "parent": bhdd.NULL_GUID}]}
        with open(os.path.join(root, "DiskDescriptor.xml"), "w") as f:
            f.write(bhdd.descriptor_xml(desc))
        s_ = HDD(Path(root)).open()
        touch_stream(s_)
        for off in (0, 20 * 512, 23 * 512, 24 * 512):  # requests across every seam
            s_.seek(off)
            s_.read(REQ)
    finally:
        shutil.rmtree(d, ignore_errors=True)


def hdd_cycle_case(spec):
    from dissect.hypervisor.disk.hdd import HDD

    n, lead = spec["cycle"], spec["lead_in"]
    guids = [f"1a2b3c4d-0000-4000-8000-{i:012x}" for i in range(n + lead)]
    # lead-in shots point into a cycle of length n they are not part of
    shots = []
    cyc = guids[lead:]
    for i, g in enumerate(cyc):
        shots.append({"guid": g, "parent": cyc[(i + 1) % n]})
    for i in range(lead):
        shots.append({"guid": guids[i], "parent": guids[i + 1]})
    top = guids[0]
    d = scratch_dir()
    try:
        root = os.path.join(d, "x.hdd")
        os.mkdir(root)
        with open(os.path.join(root, "x.hds"), "wb") as f:
            f.write(c12.base_hds(2))
        desc = {"disk_size": 24, "storages": [{"start": 0, "end": 24, "images": [{"guid": g, "type": "Compressed", "file": "x.hds"} for g in guids]}],
                "shots": shots, "top_guid": top}
        with open(os.path.join(root, "DiskDescriptor.xml"), "w") as f:
            f.write(bhdd.descriptor_xml(desc))
        h = HDD(Path(root))
        s = h.open()
        touch_stream(s)
    finally:
        shutil.rmtree(d, ignore_errors=True)


def hyperv_cycle(variant, delta=0) -> bytes:
    data = bytearray(c12.base_hyperv()[0])
    count = struct.unpack_from("<I", data, 0x2004)[0]

    def entry(i, ty, off, size, alloc=1):
        struct.pack_into("<BIQIB", data, 0x2008 + 18 * i, ty, 0, off, size, alloc)

    free = count - 1  # the builder leaves trailing unallocated entries
    if variant == "self":
        entry(free, 1, 0x2000 + delta, 0x1000)
    elif variant == "mutual":
        other = len(data)
        data.extend(bytes(0x1000))
        struct.pack_into("<II", data, other, 0x01110001, 1)
        struct.pack_into("<BIQIB", data, other + 8, 1, 0, 0x2000 + delta, 0x1000, 1)
        entry(free, 1, other, 0x1000)
    elif variant == "chain-back":
        a, b = len(data), len(data) + 0x1000
        data.extend(bytes(0x2000))
        struct.pack_into("<II", data, a, 0x01110001, 1)
        struct.pack_into("<BIQIB", data, a + 8, 1, 0, b, 0x1000, 1)
        struct.pack_into("<II", data, b, 0x01110001, 1)
        struct.pack_into("<BIQIB", data, b + 8, 1, 0, a + delta, 0x1000, 1)
        entry(free, 1, a, 0x1000)
    elif variant == "dup-keytable":
        # a second object table whose 3000 entries all name the same key table with the largest size there is: what a reader keeps per
        # entry must not be a copy of the rest of the file each time (memory quadratic in the input)
        other = len(data)
        n = 3000
        data.extend(struct.pack("<II", 0x01110001, n) + struct.pack("<BIQIB", 2, 0, 0x3000, 0xFFFFFFFF, 1) * n)
        data.extend(bytes(-len(data) % 0x1000))
        entry(free, 1, other, 0x1000)
    elif variant == "parent-self":
        # first entry of key table 1 (offset 0x300A): a node whose parent is itself
        struct.pack_into("<HI", data, 0x300A + 6, 1, 0x0A)
    elif variant == "parent-mutual":
        second = 0x300A + struct.unpack_from("<I", data, 0x300A + 2)[0]
        struct.pack_into("<H", data, second, 9)  # make the second entry a node
        struct.pack_into("<HI", data, 0x300A + 6, 1, second - 0x3000)
        struct.pack_into("<HI", data, second + 6, 1, 0x0A)
    return bytes(data)


def declared_unit(kind, data: bytes) -> int:
    """The allocation unit the (mutated) input itself declares for compressed data: a reader has to inflate a whole
    unit to serve a byte of it, so the statement's bound is relative to it (capped at what the format allows)."""
    try:
        if kind == "vmdk" and data[:4] == b"KDMV":
            front = struct.unpack_from("<Q", data, 20)[0]
            if len(data) >= 1024 and data[-1024:-1020] == b"KDMV" and struct.unpack_from("<Q", data, 56)[0] == 0xFFFFFFFFFFFFFFFF:
                # the front header defers to the footer (gd_offset == -1): the footer's grain size is the one in force
                return min(struct.unpack_from("<Q", data, len(data) - 1024 + 20)[0] * 512, 1 << 31)
            return min(front * 512, 1 << 31)
        if kind == "qcow2" and len(data) >= 24:
            return 1 << min(struct.unpack_from(">I", data, 20)[0], 21)
    except struct.error:
        pass
    return 0


def _lzma_probe_peak(data: bytes) -> int:
    """tracemalloc peak of the standard library's own xz probe on `data`, without any dissect code involved."""
    import lzma

    tracemalloc.start()
    try:
        try:
            lzma.LZMAFile(io.BytesIO(data)).read(512)  # exactly what tarfile.open(mode="r") does for its "xz" method
        except (lzma.LZMAError, EOFError, MemoryError, OSError):
            pass
        return tracemalloc.get_traced_memory()[1]
    finally:
        tracemalloc.stop()


CPU_BASE_S = 8.0
CPU_PER_BYTE_S = 6e-6


def _run_charged(runner, sname):
    """runner() — with a per-case budget overrun that surfaces while an exception of the call is being unwound (signal handlers
    only run once a Python-level handler is reached, i.e. in this frame) still charged to the library call."""
    try:
        try:
            return runner() or "done"
        except CaseTimeout:
            raise
        except BaseException:
            raise  # the pending timer, if any, fires here: inside the inner handler, wrapped by the outer one
    except CaseTimeout as e:
        if not getattr(e, "in_lib_call", None) and not core_in_library(e):
            e.in_lib_call = f"c11-driver:{sname}"
        raise


def check(spec) -> Outcome:
    out = Outcome()
    sname = spec["seed"]
    kind, data, unit, fields = seeds()[sname]
    out.cls(sname)
    inp_len = 0
    runner = None
    crafted_dirs = ("cycle", "vhdx_parent_cycle", "hdd_storages", "vmdk_parent_cycle", "vmdk_deep_chain")
    runner_is_input = not any(k in spec for k in crafted_dirs)
    if not runner_is_input:
        fn = (hdd_cycle_case if "cycle" in spec else vhdx_parent_cycle_case if "vhdx_parent_cycle" in spec else
              vmdk_parent_cycle_case if "vmdk_parent_cycle" in spec else vmdk_deep_chain_case if "vmdk_deep_chain" in spec else hdd_storages_case)
        runner = lambda: fn(spec)  # noqa: E731
        inp_len = 4096 if "vhdx_parent_cycle" not in spec else 4 << 20
        out.cls("crafted-cycle" if "hdd_storages" not in spec else "crafted")
        changed = True
    else:
        if "hv_cycle" in spec:
            mutated = hyperv_cycle(spec["hv_cycle"], spec.get("hv_delta", 0))
            out.cls("crafted-cycle")
        elif spec.get("craft") == "l1-to-header":
            l1_off = struct.unpack_from(">Q", data, 40)[0]
            mutated = apply_ops(data, [["set", l1_off, 8, (1 << 63) | l1_off, "big"]])  # the L1 table is its own L2 table
            out.cls("crafted")
        elif spec.get("craft") == "region-to-itself":
            mutated = apply_ops(data, [["set", 196608 + 32, 8, 196608, "little"], ["set", 196608 + 64, 8, 196608, "little"]])
            out.cls("crafted")
        elif spec.get("craft") == "ext-flood":
            b_ = bytearray(data)
            struct.pack_into(">QI", b_, 8, spec["bfo"], 16 if spec["bfo"] else 0)
            hl = struct.unpack_from(">I", b_, 100)[0]
            b_.extend(bytes(max(0, (128 << 10) - len(b_))))
            room = (len(b_) - hl) // 8  # the whole rest of the file: a reader that advances by too little keeps finding headers
            b_[hl : hl + 8 * room] = struct.pack(">II", 0x0BADF00D, spec["ext_len"]) * room
            mutated = bytes(b_)
            out.cls("crafted")
        elif spec.get("craft") == "bomb-footer":
            mutated = vmdk_bomb_with_footer(spec["front_grain"])
            out.cls("crafted")
        elif spec.get("craft") == "bomb-stream":
            mutated = vmdk_bomb(spec["form"], spec.get("lba", 0))
            out.cls("crafted")
        elif spec.get("craft") == "keystore-option":
            where = ":version=1" if spec["opt"] != "version" else ":version=1\""
            mutated = data.replace(where.encode(), (f":{spec['opt']}={spec['val']}" + where).encode(), 1)
            out.cls("crafted")
        elif spec.get("craft") == "pax-cycle":
            mutated = vmtar_pax_cycle(spec["lead"], spec["size"], spec["target"])
            out.cls("crafted-cycle")
        elif spec.get("craft") == "biggrain-sweep":
            mutated = biggrain_vmdk()
            unit = 8192 * 512
            out.cls("crafted")
        elif spec.get("raw_b64") is not None:
            import base64

            mutated = base64.b64decode(spec["raw_b64"])  # an input found by the coverage-guided campaign
            out.cls("fuzz-artifact")
        else:
            mutated = apply_ops(data, spec["ops"])
            for op in spec["ops"]:
                out.cls("op-" + op[0])
            if spec.get("rechk") and sname == "vmtar":
                mb = bytearray(mutated)
                tar_rechecksum(mb)
                mutated = bytes(mb)
                out.cls("tar-checksum-repaired")
        changed = mutated != data
        inp_len = len(mutated)
        if sname == "vmtar-gz":
            try:
                inp_len = max(inp_len, len(zlib.decompressobj(31).decompress(mutated, 64 << 20)))
            except zlib.error:
                pass
        runner = lambda: drive(kind, mutated, spec)  # noqa: E731
    limit = BASE_MEM + 8 * (inp_len + 3 * REQ + max(unit, declared_unit(kind, mutated if runner_is_input else b"")))
    stage = "open"
    # CPU budget: a flat part plus a part proportional to the input.  Parsing is allowed to be linear in the bytes it is given (a
    # 5 MiB input whose table count field claims 4 MiB of 32-byte entries costs cstruct about 2 us per byte under tracemalloc);
    # the per-case timer of the worker (flat 10 s) is re-armed to this budget so that "slow but linear" is not reported as a hang.
    cpu_limit = CPU_BASE_S + CPU_PER_BYTE_S * (inp_len + 3 * REQ)
    import signal as _signal

    _signal.setitimer(_signal.ITIMER_PROF, cpu_limit + 2.0, cpu_limit + 2.0)
    tracemalloc.start()
    t0 = time.process_time()
    err = None
    try:
        stage = _run_charged(runner, sname)
    except CaseTimeout:
        tracemalloc.stop()
        raise
    except MemoryError as e:
        err = e
    except RecursionError as e:
        err = e
    except BaseException as e:  # noqa: BLE001 - returns-or-raises: any exception type is an acceptable outcome
        err = e
        if err.__traceback__ is not None:
            # how far did it get? an exception raised after the header was accepted counts as "got past the magic check"
            import traceback

            frames = [f.name for f in traceback.extract_tb(err.__traceback__)]
            if any(n in ("_read", "read_sectors", "touch_stream", "as_dict", "decrypt", "unlock_with_phrase", "disks", "extractfile", "getmembers", "snapshots") for n in frames):
                stage = "opened"
    finally:
        # the library call is over: what follows is bookkeeping, and the CPU time used is judged below (a call that ran out of
        # memory after seconds of work would otherwise trip the per-case timer in here)
        import signal

        signal.setitimer(signal.ITIMER_PROF, 0, 0)
        cpu = time.process_time() - t0
        peak = tracemalloc.get_traced_memory()[1] if tracemalloc.is_tracing() else 0
        tracemalloc.stop()
    where = sname if "field" not in spec else f"{sname}"
    if isinstance(err, MemoryError) or peak > limit:
        if kind == "vmtar" and runner_is_input and _lzma_probe_peak(mutated) > limit:
            # the allocation happens inside the standard library's xz/lzma probe of tarfile.open(mode="r"), before any
            # vmtar code runs: its own signature, so that it can be listed as a finding without hiding other vmtar failures
            where += "|stdlib-lzma-probe"
        out.fail(f"memory|{where}", f"peak {peak} bytes traced (limit {limit}) for a {inp_len}-byte input, request {REQ}; "
                                    f"{type(err).__name__ if err else 'no exception'}; spec field={spec.get('field')}")
    if cpu > cpu_limit:
        out.fail(f"cpu|{where}", f"{cpu:.1f}s CPU for a {inp_len}-byte input (budget {cpu_limit:.1f}s)")
    out.nontrivial = changed and stage != "open"
    out.cls("past-header" if stage != "open" else "refused-at-open", "raised" if err else "returned")
    return out


# ------------------------------------------------------------------------------------------- coverage-guided campaign
FUZZ_SEEDS = [n for n in SEED_NAMES if n not in ("hdd-descriptor",)]


def extra_campaign(tier, seed, workdir, max_par):
    """atheris / libFuzzer campaign, one process per seed artefact (in-process target = drive()).  Returns
    (failures {sig: entry}, stats dict).  Skipped (with a note) when atheris is not installed."""
    import base64
    import glob
    import subprocess
    import sys as _sys

    here = os.path.dirname(os.path.dirname(os.path.abspath(__file__)))
    deps = os.path.join(os.path.dirname(here), ".deps")
    probe = subprocess.run([_sys.executable, "-c", "import sys; sys.path.insert(0, %r); import atheris" % deps], capture_output=True)
    if probe.returncode != 0:
        return {}, {"fuzz": "skipped: atheris not importable (run MANIFEST.setup_cmd)"}
    runs, tmax = (1500, 10) if tier == "quick" else (400000, 300)
    procs = []
    pending = list(FUZZ_SEEDS)
    results = {}
    stats = {"fuzz_executions": 0, "fuzz_new_units": 0, "fuzz_targets": len(FUZZ_SEEDS), "fuzz_runs_per_target": runs}

    def env_for_worker():
        e = dict(os.environ, PYTHONHASHSEED="0", PYTHONDONTWRITEBYTECODE="1")
        e["PYTHONPATH"] = os.path.dirname(here) + os.pathsep + e.get("PYTHONPATH", "")
        return e

    def start(name):
        d = os.path.join(workdir, "fuzz-" + name)
        os.makedirs(d, exist_ok=True)
        log = open(os.path.join(d, "log"), "w")
        env = dict(os.environ, PYTHONHASHSEED="0", PYTHONDONTWRITEBYTECODE="1")
        p = subprocess.Popen([_sys.executable, os.path.join(here, "fuzz_c11.py"), name, os.path.join(d, "corpus"), os.path.join(d, "art"), str(runs), str(seed), str(tmax)],
                             stdout=log, stderr=subprocess.STDOUT, env=env, cwd=os.path.dirname(here))
        return (name, p, d, log)

    while pending or procs:
        while pending and len(procs) < max_par:
            procs.append(start(pending.pop(0)))
        still = []
        for name, p, d, log in procs:
            if p.poll() is None:
                still.append((name, p, d, log))
                continue
            log.close()
            text = open(os.path.join(d, "log"), errors="replace").read()
            for line in text.splitlines():
                if line.startswith("stat::number_of_executed_units:"):
                    stats["fuzz_executions"] += int(line.split()[-1])
                if line.startswith("stat::new_units_added:"):
                    stats["fuzz_new_units"] += int(line.split()[-1])
            arts = sorted(glob.glob(os.path.join(d, "art", "*")))
            if p.returncode != 0 and arts:
                a = arts[0]
                kindname = os.path.basename(a).split("-")[0]
                raw = open(a, "rb").read()
                fspec = {"seed": name, "ops": [], "raw_b64": base64.b64encode(raw).decode()}
                sig = f"fuzz|{name}|{kindname}"
                msg = f"libFuzzer reported {kindname} on a {len(raw)}-byte input; " + text[-300:].replace("\n", " ")
                # classify the input with the regular oracle (its signature is what KNOWN_FINDINGS.txt is matched against)
                rp = os.path.join(d, "artifact.json")
                with open(rp, "w") as f:
                    json.dump({"property": "C11", "spec": fspec}, f)
                rout = os.path.join(d, "replay.out.json")
                subprocess.run([_sys.executable, "-m", "hv.worker", "replay", "C11", tier, str(seed), "0", "1", rout, json.dumps({"files": [rp]})],
                               env=env_for_worker(), cwd=os.path.dirname(here), capture_output=True)
                try:
                    per = json.load(open(rout))["per_file"][rp]
                    if per:
                        sig, msg = per[0]["sig"], per[0]["message"] + " (input found by the coverage-guided campaign)"
                    elif kindname in ("timeout", "slow"):
                        # libFuzzer's -timeout is wall-clock time; the regular oracle (CPU time, budget proportional to the input)
                        # re-ran the input and it stayed within budget: inconclusive, not a violation
                        stats["fuzz_unconfirmed_timeouts"] = stats.get("fuzz_unconfirmed_timeouts", 0) + 1
                        continue
                except (OSError, KeyError, ValueError):
                    pass
                results[sig] = {"count": len(arts), "size": len(raw), "message": msg, "spec": fspec}
            elif p.returncode not in (0,) and not arts:
                results[f"fuzz-harness|{name}"] = {"count": 1, "size": 0, "message": "fuzz process failed without artifact: " + text[-400:], "spec": None, "harness": True}
        procs = still
        if procs:
            time.sleep(0.2)
    return results, stats
