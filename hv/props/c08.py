"""C08 — A disk stream behaves as an immutable byte array under any access history (stateful)."""
from __future__ import annotations

import io
import os

from hypothesis import strategies as st
from hypothesis.stateful import RuleBasedStateMachine, initialize, precondition, rule, run_state_machine_as_test

from hv import strat
from hv.builders import hdd as bhdd
from hv.builders import qcow2 as bq
from hv.builders import vdi as bvdi
from hv.builders import vhd as bvhd
from hv.builders import vhdx as bvhdx
from hv.builders import vmdk as bvmdk
from hv.core import Outcome, describe_mismatch, lib
from hv.props import c01, c02, c03, c04, c05, c06
from hv.sparse import Extents, Overlay, copy_shifted

ID = "C08"
TECHNIQUE = ("stateful property-based testing: Hypothesis RuleBasedStateMachine per stream class, run in one worker process "
             "per DISSECT_STREAM_BUFFER_SIZE value, against a (byte array, position) reference model after every step")
RULE = (
    "One Hypothesis rule-based state machine per stream class (QCow2, VMDK hosted-sparse / SE-sparse / multi-extent handle "
    "lists, VHDX, VHD dynamic / fixed, VDI, HDS, Parallels StorageStream, and QCow2 with internal snapshots where a 'view' rule "
    "switches between the active view and lazily opened snapshot views that share handle, header and L2 cache, each with its own "
    "position and model). @initialize draws an image sized to overflow the "
    "class's caches (> 128 L2 / grain tables, > 4096 BAT entries) whose size is not a multiple of the buffer; rules: seek "
    "SET/CUR/END (incl. beyond EOF, negative clamps, invalid negative SET), read(n) for n in {0, 1, small, align±1, "
    "multi-unit, > remaining, -1}, readinto, peek, readoffset, readall, tell, read_sectors, re-reading an earlier range, "
    "and a 'sweep' that touches hundreds to thousands of table entries. After every step the returned bytes, the length "
    "min(n, size-pos) and tell() are compared with the model; at teardown a fresh object must return the same bytes for "
    "sampled ranges. The whole machine runs in separate worker processes with DISSECT_STREAM_BUFFER_SIZE in {512, 1536, 4096, "
    "default 8192, 65536} (thorough: + 1024, 1536, 12288, 131072, 1 MiB). Non-trivial = a history with >= 4 data-returning "
    "operations, >= 1 backward seek and >= 1 read touching the last partial buffer or crossing a unit boundary."
)
ASSUMPTIONS = [
    "buffer sizes are multiples of the disk's sector size (4096-byte-sector VHDX only with multiples of 4096), as the "
    "property states",
    "read(-1)/readall only when at most 24 MiB remain (cost bound of the harness)",
]
REPLAY_ALL_VARIANTS = True

CLASSES = ["qcow2", "vmdk-kdmv", "vmdk-ses", "vmdk-multi", "vhdx", "vhd-dyn", "vhd-fixed", "vdi", "hds", "storage", "qcow2-snap"]
BUFSIZE = int(os.environ.get("DISSECT_STREAM_BUFFER_SIZE") or io.DEFAULT_BUFFER_SIZE)


def variants(tier):
    # 1536 = 3 sectors: a buffer size that divides no power-of-two block / cluster / grain size
    sizes = [None, 512, 1536, 4096, 65536] if tier == "quick" else [None, 512, 1024, 1536, 4096, 12288, 65536, 131072, 1 << 20]
    out = []
    for s in sizes:
        env = {} if s is None else {"DISSECT_STREAM_BUFFER_SIZE": str(s)}
        out.append({"name": f"buf{s or 8192}", "env": env})
    return out


def shards(tier):
    return 3 if tier == "quick" else 2


def sequences_per_class(tier):
    return 80 if tier == "quick" else 600


def steps(tier):
    return 40 if tier == "quick" else 80


# ---------------------------------------------------------------------------------------------- images
@st.composite
def image_spec(draw, cls, tier):
    big = draw(st.integers(0, 2)) == 0  # a third of the images are sized to overflow the caches
    if cls == "qcow2":
        if big:
            cb = 9
            l2e = 64
            ntab = draw(st.integers(130, 140))
            ng = ntab * l2e - draw(st.integers(0, 5))
            spec = draw(c01.qcow2_spec(tier, size_clusters=ng, cluster_bits=cb, allow_backing=False,
                                       force={"version": draw(st.sampled_from([2, 3])), "ext_l2": False, "data_file": False}))
            have = {c[0] // l2e for c in spec["clusters"]}
            slot = max([c[2] for c in spec["clusters"]] + [0]) + 1
            for t in range(ntab):
                if t not in have and t * l2e + 3 < ng:
                    spec["clusters"].append([t * l2e + 3, "n", slot, None])
                    slot += 1
            spec["clusters"].sort()
            spec["l2_interleave"] = False
            spec["size"] = ng * 512 - draw(st.sampled_from([0, 0]))
        elif draw(st.booleans()):
            # alternating present / absent L2 tables (L1 holes), data right at the table boundaries
            cb = draw(st.sampled_from([9, 9, 10]))
            l2e = (1 << cb) // 8
            ntab = draw(st.integers(4, 12))
            spec = draw(c01.qcow2_spec(tier, size_clusters=ntab * l2e, cluster_bits=cb, allow_backing=draw(st.booleans()),
                                       force={"version": draw(st.sampled_from([2, 3])), "ext_l2": False, "data_file": False}))
            keep = draw(st.sampled_from([0, 1]))
            cl = []
            slot = 0
            for t in range(ntab):
                if t % 2 == keep:
                    for i in (0, 1, l2e - 1):
                        cl.append([t * l2e + i, "n", slot, None])
                        slot += 1
            spec["clusters"] = cl
            spec["l2_interleave"] = False
            spec["l2_slots"] = {}
        else:
            spec = draw(c01.qcow2_spec(tier, allow_backing=True))
        return spec
    if cls == "qcow2-snap":
        from hv.props import c07

        return draw(c07.qcow2_snap(tier))["image"]
    if cls in ("vmdk-kdmv", "vmdk-ses"):
        kind = "kdmv" if cls == "vmdk-kdmv" else "sesparse"
        spec = draw(c02.extent_spec(tier, kind=kind))
        if big:
            # > 128 grain tables, each holding a grain
            if kind == "kdmv":
                spec.update(gtes=16, grain=8, compressed=False)
                spec.pop("ctargets", None)
                spec.pop("footer", None)
                gtes, grain = 16, 8
            else:
                spec.update(gt_sectors=1, grain=8, index_base=0)
                gtes, grain = 64, 8
            ntab = draw(st.integers(130, 140))
            cap = ntab * gtes * grain - draw(st.integers(0, 15))
            spec["capacity"] = cap
            ng = (cap + grain - 1) // grain
            spec["grains"] = [[t * gtes + (t % gtes), "a", t] for t in range(ntab) if t * gtes + (t % gtes) < ng]
            spec["present_gts"] = []
            spec.pop("descriptor", None)
        return spec
    if cls == "vmdk-multi":
        n = draw(st.integers(2, 4))
        exts = []
        for j in range(n):
            k = draw(st.sampled_from(["kdmv", "cowd", "sesparse", "flat"]))
            cap = draw(st.one_of(st.integers(1, 300), st.sampled_from([16, 17, 128, 2048])))
            e = draw(c02.extent_spec(tier, kind=k, layer=j, capacity=cap, allow_compressed=True))
            e.pop("descriptor", None)
            exts.append(e)
        return {"extents": exts}
    if cls == "vhdx":
        spec = draw(c03.vhdx_spec(tier))
        if BUFSIZE % 4096 and spec["sector_size"] == 4096:
            spec["sector_size"] = 512
            spec["size"] = max(512, spec["size"])
        return spec
    if cls == "vhd-dyn":
        return draw(c04.vhd_spec(tier, kind="dynamic"))
    if cls == "vhd-fixed":
        return draw(c04.vhd_spec(tier, kind="fixed"))
    if cls == "vdi":
        return draw(c05.vdi_spec(tier))
    if cls == "hds":
        return draw(c06.hds_spec(tier))[0]
    if cls == "storage":
        n = draw(st.integers(1, 4))
        parts = []
        for j in range(n):
            parts.append(draw(c06.hds_spec(tier, layer=j))[0])
        return {"parts": parts, "shuffle": draw(st.booleans())}
    raise ValueError(cls)


class Opened:
    def __init__(self, stream, model, size, unit, sector=512, read_sectors=None, tables=1, table_span=None):
        self.stream, self.model, self.size, self.unit = stream, model, size, unit
        self.sector, self.read_sectors = sector, read_sectors
        self.table_span = table_span or unit
        # offsets where stored data begins / ends (the images are sparse: most of a big disk reads as zeros)
        pts = []
        ext = getattr(model, "layers", [model])[0]
        for off, prov in list(zip(ext._offs, ext._provs))[:400]:
            pts += [off, off + prov.length]
        self.points = sorted(set(p for p in pts if 0 <= p <= size)) or [0]


def open_image(cls, spec) -> Opened:
    """Build + open; raises LibOpenError wrapper (tuple) on library exceptions."""
    if cls == "qcow2":
        built = bq.build(spec)
        q, err = c01.open_image(spec, built)
        if err:
            raise OpenFailed(err)
        cs = 1 << spec["cluster_bits"]
        return Opened(q, c01.model_of(spec, built[3]), spec["size"], cs, table_span=cs * (cs // 8))
    if cls == "qcow2-snap":
        # the active view plus one view per internal snapshot; the views share the file handle, the header object and the
        # L2-table cache, and are opened lazily by the `view` operation (so that they are created at any point of a history)
        built = bq.build(spec)
        q, err = c01.open_image(spec, built)
        if err:
            raise OpenFailed(err)
        snaps, err = lib(lambda: list(q.snapshots))
        if err:
            raise OpenFailed(err)
        cs = 1 << spec["cluster_bits"]
        o = Opened(q, c01.model_of(spec, built[3], "active"), spec["size"], cs, table_span=cs * (cs // 8))
        o.views = [{"name": "active", "stream": q, "model": o.model, "pos": 0, "open": None}]
        for i, (sn, ss) in enumerate(zip(snaps, spec["snapshots"])):
            o.views.append({"name": f"snap{i}", "stream": None, "pos": 0, "open": sn.open,
                            "model": c01.model_of(spec, built[3], "active" if ss.get("share_active") else i)})
        return o
    if cls in ("vmdk-kdmv", "vmdk-ses"):
        from dissect.hypervisor.disk.vmdk import VMDK

        fh, lay, meta = bvmdk.build(spec)
        v, err = lib(VMDK, fh)
        if err:
            raise OpenFailed(err)
        gtes = spec.get("gtes") or spec.get("gt_sectors", 64) * 64
        return Opened(v, lay, meta["size"], spec["grain"] * 512, read_sectors=v.read_sectors, table_span=gtes * spec["grain"] * 512)
    if cls == "vmdk-multi":
        from dissect.hypervisor.disk.vmdk import VMDK

        fhs = []
        total = sum(e["capacity"] for e in spec["extents"]) * 512
        lay = Extents(total)
        pos = 0
        for e in spec["extents"]:
            fh, elay, _ = bvmdk.build(e)
            fhs.append(fh)
            copy_shifted(elay, lay, pos)
            pos += e["capacity"] * 512
        v, err = lib(VMDK, fhs)
        if err:
            raise OpenFailed(err)
        return Opened(v, lay, total, 512 * 16, read_sectors=v.read_sectors)
    if cls == "vhdx":
        from dissect.hypervisor.disk.vhdx import VHDX

        fh, lay, meta = bvhdx.build(spec)
        v, err = lib(VHDX, fh)
        if err:
            raise OpenFailed(err)
        return Opened(v, lay, spec["size"], spec["block_size"], sector=spec["sector_size"], read_sectors=v.read_sectors)
    if cls in ("vhd-dyn", "vhd-fixed"):
        from dissect.hypervisor.disk.vhd import VHD

        fh, lay, meta = bvhd.build(spec)
        v, err = lib(VHD, fh)
        if err:
            raise OpenFailed(err)
        return Opened(v, lay, spec["size"], spec.get("block_size", 1 << 20), read_sectors=v.disk.read_sectors)
    if cls == "vdi":
        from dissect.hypervisor.disk.vdi import VDI

        fh, lay, meta = bvdi.build(spec)
        v, err = lib(VDI, fh)
        if err:
            raise OpenFailed(err)
        return Opened(v, lay, spec["disk_size"], spec["block_size"])
    if cls == "hds":
        from dissect.hypervisor.disk.hdd import HDS

        fh, lay, meta = bhdd.build(spec)
        v, err = lib(HDS, fh)
        if err:
            raise OpenFailed(err)
        return Opened(v, lay, meta["size"], meta["cluster_size"])
    if cls == "storage":
        from dissect.hypervisor.disk.hdd import HDS, Storage, StorageStream

        parts = []
        start = 0
        total = sum(p["size_sectors"] for p in spec["parts"]) * 512
        lay = Extents(total)
        for p in spec["parts"]:
            fh, play, meta = bhdd.build(p)
            s, err = lib(HDS, fh)
            if err:
                raise OpenFailed(err)
            parts.append((Storage(start, start + p["size_sectors"], []), s))
            copy_shifted(play, lay, start * 512)
            start += p["size_sectors"]
        if spec.get("shuffle"):
            parts.reverse()
        v, err = lib(StorageStream, parts)
        if err:
            raise OpenFailed(err)
        return Opened(v, lay, total, 512 * 16)
    raise ValueError(cls)


class OpenFailed(Exception):
    def __init__(self, err):
        super().__init__(err.describe())
        self.err = err


# ---------------------------------------------------------------------------------------------- interpreter
MAX_READALL = 24 << 20


class Runner:
    """Applies concrete ops to (stream, model position) and records the first failure."""

    def __init__(self, cls, image):
        self.cls = cls
        self.image = image
        self.o = open_image(cls, image)
        self.cur = 0  # index of the view the operations address (classes with several views of one image)
        self.view_switches = 0
        self.pos = 0
        self.failure = None  # (sig, message)
        self.data_ops = 0
        self.history = []  # (offset, length) of every data-returning operation so far
        self.back_seeks = 0
        self.boundary_reads = 0

    def fail(self, kind, msg):
        if self.failure is None:
            self.failure = (f"{kind}|{self.cls}", msg)

    def expect_bytes(self, op, got, off, n):
        exp = self.o.model.read_at(off, n) if n > 0 else b""
        if got != exp:
            self.fail("mismatch", f"{op}: " + describe_mismatch(off, n, got if isinstance(got, bytes) else bytes(got), exp))
            return False
        return True

    def note_read(self, off, n):
        self.data_ops += 1
        self.history.append((off, n))
        if n > 0:
            tail = (self.o.size // BUFSIZE) * BUFSIZE
            if off + n > tail or off // self.o.unit != (off + n - 1) // self.o.unit:
                self.boundary_reads += 1

    def apply(self, op) -> bool:
        """Returns False once a failure has been recorded."""
        if self.failure:
            return False
        s, size = self.o.stream, self.o.size
        name = op[0]
        try:
            if name == "seek":
                _, off, whence = op
                if whence == 0 and off < 0:
                    try:
                        s.seek(off, whence)
                    except ValueError:
                        pass
                    else:
                        self.fail("contract", f"seek({off}, SET) did not raise ValueError")
                    new = self.pos
                else:
                    new = off if whence == 0 else max(0, self.pos + off) if whence == 1 else max(0, size + off)
                    if new < self.pos:
                        self.back_seeks += 1
                    r = s.seek(off, whence)
                    if r != new:
                        self.fail("mismatch", f"seek({off},{whence}) returned {r}, expected {new}")
                self.pos = new
            elif name in ("read", "readinto", "peek"):
                n = op[1]
                if n < -1:
                    try:
                        s.read(n)
                    except ValueError:
                        pass
                    else:
                        self.fail("contract", f"read({n}) did not raise ValueError")
                else:
                    want = max(0, size - self.pos) if n == -1 else max(0, min(n, size - self.pos))
                    if name == "read":
                        got = s.read(n)
                    elif name == "peek":
                        got = s.peek(n)
                    else:
                        buf = bytearray(n)
                        cnt = s.readinto(buf)
                        if cnt != want:
                            self.fail("mismatch", f"readinto({n}) at {self.pos:#x} returned {cnt}, expected {want}")
                        got = bytes(buf[:cnt])
                    self.note_read(self.pos, want)
                    if self.expect_bytes(f"{name}({n}) at pos {self.pos:#x}", got, self.pos, want) and name != "peek":
                        self.pos += want
            elif name == "readoffset":
                _, off, n = op
                want = max(0, min(n, size - off))
                if off < self.pos:
                    self.back_seeks += 1
                got = s.readoffset(off, n)
                self.note_read(off, want)
                if self.expect_bytes(f"readoffset({off:#x},{n})", got, off, want):
                    self.pos = off + want
            elif name == "readall":
                want = max(0, size - self.pos)
                got = s.readall()
                self.note_read(self.pos, want)
                if self.expect_bytes(f"readall() at pos {self.pos:#x}", got, self.pos, want):
                    self.pos += want
            elif name == "read_sectors":
                _, sec, cnt = op
                ss = self.o.sector
                got = self.o.read_sectors(sec, cnt)
                self.note_read(sec * ss, cnt * ss)
                self.expect_bytes(f"read_sectors({sec},{cnt})", got, sec * ss, cnt * ss)
            elif name == "view":
                views = getattr(self.o, "views", None)
                if views:
                    views[self.cur]["pos"] = self.pos
                    self.cur = op[1] % len(views)
                    v = views[self.cur]
                    if v["stream"] is None:
                        v["stream"] = v["open"]()
                    self.o.stream, self.o.model, self.pos = v["stream"], v["model"], v["pos"]
                    s = self.o.stream
                    self.view_switches += 1
            elif name == "sweep":
                _, start, stride, count, delta, n = op
                for i in range(count):
                    off = start + i * stride + delta
                    if off >= size:
                        break
                    want = max(0, min(n, size - off))
                    got = s.readoffset(off, n)
                    if not self.expect_bytes(f"sweep readoffset({off:#x},{n})", got, off, want):
                        break
                    self.pos = off + want
                self.data_ops += 1
            t = s.tell()
            if t != self.pos and not self.failure:
                self.fail("mismatch", f"tell() == {t} after {op}, expected {self.pos}")
        except (KeyboardInterrupt, SystemExit):
            raise
        except BaseException as e:  # noqa: BLE001
            from hv.core import CaseTimeout, LibRaised

            if isinstance(e, CaseTimeout):
                raise
            lr = LibRaised(e)
            self.fail(f"exc|{lr.kind}|{lr.frame}", f"{op} at pos {self.pos:#x} raised {lr.describe()}")
        return self.failure is None

    def fresh_check(self, ranges):
        """Cache-independence differential: a fresh object returns the same bytes."""
        if self.failure:
            return
        try:
            o2 = open_image(self.cls, self.image)
        except OpenFailed as e:
            self.fail("exc-open", str(e))
            return
        if self.cur:
            v2 = o2.views[self.cur]
            o2.stream = v2["open"]()
        for off, n in ranges:
            a = self.o.stream.readoffset(off, n)
            b = o2.stream.readoffset(off, n)
            if a != b:
                self.fail("mismatch-fresh", f"range ({off:#x},{n}) differs between the used and a fresh object")
                return

    def final_check(self):
        """Teardown step of every history (also on replay): cache-independence differential on three ranges."""
        if self.failure:
            return
        size = self.o.size
        ranges = [(0, min(size, 70000)), (max(0, size - 9000), 9000), (size // 2, 20000)]
        try:
            self.fresh_check(ranges)
        except BaseException as e:  # noqa: BLE001
            from hv.core import CaseTimeout, LibRaised

            if isinstance(e, (CaseTimeout, KeyboardInterrupt, SystemExit)):
                raise
            lr = LibRaised(e)
            self.fail(f"exc|{lr.kind}|{lr.frame}", f"fresh-object check raised {lr.describe()}")

    def nontrivial(self) -> bool:
        return self.data_ops >= 4 and self.back_seeks >= 1 and self.boundary_reads >= 1


def execute(spec) -> tuple[Outcome, Runner | None]:
    out = Outcome()
    try:
        r = Runner(spec["cls"], spec["image"])
    except OpenFailed as e:
        out.fail(e.err.sig(spec["cls"] + "-open"), f"open raised {e.err.describe()}")
        return out, None
    for op in spec["ops"]:
        if not r.apply(op):
            break
    r.final_check()
    if r.failure:
        out.fail(*r.failure)
    out.nontrivial = r.nontrivial()
    return out, r


def check(spec) -> Outcome:
    """Replay of a recorded history (no Hypothesis)."""
    if spec.get("bufsize", BUFSIZE) != BUFSIZE:
        o = Outcome()
        o.cls("replay-skipped-other-bufsize")
        return o
    out, _ = execute(spec)
    out.cls(spec["cls"], f"buf={BUFSIZE}")
    return out


def minimise(spec, sig):
    """Greedy removal of operations that are not needed to reproduce the same failure signature."""
    ops = list(spec["ops"])
    i = len(ops) - 2  # the last op is the failing one
    tries = 0
    while i >= 0 and tries < 60:
        cand = ops[:i] + ops[i + 1 :]
        out, _ = execute(dict(spec, ops=cand))
        tries += 1
        if any(f.sig == sig for f in out.failures):
            ops = cand
        i -= 1
    return dict(spec, ops=ops)


# ---------------------------------------------------------------------------------------------- state machine
def make_machine(cls, tier, col):
    class StreamMachine(RuleBasedStateMachine):
        def __init__(self):
            super().__init__()
            self.r = None
            self.image = None
            self.ops = []
            self.dead = False
            self.huge_left = 0

        @initialize(image=image_spec(cls, tier), huge=st.integers(0, 9))
        def setup(self, image, huge):
            self.image = image
            self.huge_left = 1 if huge == 0 else 0  # one history in ten gets a single request of tens of MiB
            try:
                self.r = Runner(cls, image)
            except OpenFailed as e:
                out = Outcome()
                out.fail(e.err.sig(cls + "-open"), f"open raised {e.err.describe()}")
                col.handle({"cls": cls, "image": image, "ops": [], "bufsize": BUFSIZE}, out)
                self.dead = True

        def do(self, op):
            if self.dead or self.r is None:
                return
            self.ops.append(op)
            import signal

            from hv import worker
            from hv.core import CaseTimeout

            signal.signal(signal.SIGPROF, worker._on_timer)
            signal.setitimer(signal.ITIMER_PROF, worker.CASE_CPU_S * 2)
            try:
                ok = self.r.apply(op)
            except CaseTimeout:
                self.r.fail("hang", f"{op} at pos {self.r.pos:#x}: no result after {worker.CASE_CPU_S * 2}s CPU")
                ok = False
            finally:
                signal.setitimer(signal.ITIMER_PROF, 0)
            if not ok:
                self.dead = True

        def alive(self):
            return self.r is not None and not self.dead

        # -- helpers resolving abstract choices against the current state
        def offset_choice(self, kind, k, delta):
            o = self.r.o
            size = o.size
            if kind == 0:
                base = (k % (size // o.unit + 2)) * o.unit
            elif kind == 1:
                base = (k % (size // BUFSIZE + 2)) * BUFSIZE
            elif kind == 2:
                base = size
            elif kind == 3:
                base = self.r.pos
            elif kind == 4:
                base = (k % (size // o.table_span + 2)) * o.table_span
            elif kind == 6:
                base = o.points[k % len(o.points)]
            elif kind == 7:
                # a little before stored data, one or two mapping tables back: runs that start in a hole covered by an
                # absent second-level table and end in stored data
                base = o.points[k % len(o.points)] - (1 + (k // 7) % 2) * min(o.table_span, 1 << 20) + (k % 3) * 512
            else:
                base = (k * 7919) % (size + 1)
            return max(0, base + delta)

        def length_choice(self, kind, k):
            o = self.r.o
            if kind == 0:
                return [0, 1, 2, 511, 512, 513][k % 6]
            if kind == 1:
                return max(0, BUFSIZE + [-1, 0, 1, BUFSIZE, -BUFSIZE + 1][k % 5])
            if kind == 2:
                return min(3 << 20, o.unit * (1 + k % 3) + [-1, 0, 1, 512][k % 4])
            if kind == 3:
                return min(3 << 20, max(0, o.size - self.r.pos) + [0, 1, 4096][k % 3])
            if kind == 4:
                return min(3 << 20, min(o.table_span, 1 << 20) * (1 + k % 2) + [0, 512, BUFSIZE, 4096 + 1][k % 4])
            return k % 5000

        DELTAS = [-BUFSIZE - 1, -BUFSIZE, -513, -512, -1, 0, 1, 511, 512, 513, BUFSIZE - 1, BUFSIZE, BUFSIZE + 1]

        @precondition(lambda self: self.alive())
        @rule(kind=st.integers(0, 7), k=st.integers(0, 10000), d=st.sampled_from(DELTAS), whence=st.sampled_from([0, 0, 1, 2]))
        def seek(self, kind, k, d, whence):
            target = self.offset_choice(kind, k, d)
            if whence == 0:
                off = target
            elif whence == 1:
                off = target - self.r.pos
            else:
                off = target - self.r.o.size
            self.do(["seek", off, whence])

        @precondition(lambda self: self.alive())
        @rule(d=st.integers(-5000, -1))
        def seek_invalid(self, d):
            self.do(["seek", d, 0])

        @precondition(lambda self: self.alive())
        @rule(kind=st.integers(0, 4), k=st.integers(0, 10000), how=st.sampled_from(["read", "read", "readinto", "peek"]))
        def read(self, kind, k, how):
            self.do([how, self.length_choice(kind, k)])

        @precondition(lambda self: self.alive() and self.r.o.size - self.r.pos <= MAX_READALL)
        @rule(how=st.sampled_from(["read-1", "readall"]))
        def read_to_end(self, how):
            self.do(["read", -1] if how == "read-1" else ["readall"])

        @precondition(lambda self: self.alive())
        @rule(n=st.integers(-9, -2))
        def read_invalid(self, n):
            self.do(["read", n])

        @precondition(lambda self: self.alive())
        @rule(kind=st.integers(0, 7), k=st.integers(0, 10000), d=st.sampled_from(DELTAS + [2 * BUFSIZE, 3 * BUFSIZE + 512]), lk=st.integers(0, 4), k2=st.integers(0, 10000))
        def readoffset(self, kind, k, d, lk, k2):
            self.do(["readoffset", self.offset_choice(kind, k, d), self.length_choice(lk, k2)])

        @precondition(lambda self: self.alive() and any(o[0] in ("readoffset",) for o in self.ops))
        @rule(i=st.integers(0, 1000))
        def reread(self, i):
            prev = [o for o in self.ops if o[0] == "readoffset"]
            self.do(list(prev[i % len(prev)]))

        @precondition(lambda self: self.alive() and len(self.r.history) > 0)
        @rule(i=st.integers(0, 1000), back=st.integers(1, 3), lk=st.integers(0, 4), k2=st.integers(0, 10000), aligned=st.booleans(),
              sectors=st.booleans())
        def resume(self, i, back, lk, k2, aligned, sectors):
            """Continue exactly where an earlier read ended (or at the end of the buffer it filled), typically after
            other parts of the disk were touched in between."""
            h = self.r.history
            off, n = h[max(0, len(h) - 1 - (i % min(len(h), back + 2)))]
            end = off + n
            if aligned:
                end = -(-end // BUFSIZE) * BUFSIZE
            if sectors and self.r.o.read_sectors is not None:
                ss = self.r.o.sector
                total = self.r.o.size // ss
                sec = end // ss
                if sec < total:
                    self.do(["read_sectors", sec, max(1, min(1 + k2 % 64, total - sec))])
                return
            self.do(["readoffset", end, self.length_choice(lk, k2)])

        @precondition(lambda self: self.alive())
        @rule(k=st.integers(0, 10000), d=st.sampled_from([0, 0, 512, 1, BUFSIZE]), n1=st.sampled_from([1, 512, BUFSIZE, BUFSIZE + 1, 3 * BUFSIZE]),
              far=st.integers(0, 1 << 40), n2=st.sampled_from([1, 512, 4096]), n3=st.sampled_from([1, 512, BUFSIZE, 2 * BUFSIZE + 7]),
              aligned=st.booleans())
        def pingpong(self, k, d, n1, far, n2, n3, aligned):
            """Read a piece of stored data, touch an unrelated (mostly never visited) place, continue the first read."""
            o = self.r.o
            a = min(max(0, o.points[k % len(o.points)] + d), max(0, o.size - 1))
            self.do(["readoffset", a, n1])
            self.do(["readoffset", far % max(1, o.size), n2])
            end = a + n1
            if aligned:
                end = -(-end // BUFSIZE) * BUFSIZE
            self.do(["readoffset", end, n3])

        @precondition(lambda self: self.alive() and self.r.o.read_sectors is not None)
        @rule(kind=st.integers(0, 7), k=st.integers(0, 10000), d=st.sampled_from(DELTAS), c=st.integers(1, 300))
        def read_sectors(self, kind, k, d, c):
            ss = self.r.o.sector
            total = self.r.o.size // ss
            if total <= 0:
                return
            sec = min(total - 1, self.offset_choice(kind, k, d) // ss)
            self.do(["read_sectors", sec, max(1, min(c, total - sec))])

        @precondition(lambda self: self.alive() and self.r.o.size > 64 * 1024)
        @rule(k=st.integers(0, 10000), delta=st.sampled_from([0, 1, 511, 512]), n=st.sampled_from([1, 16, 512, 600]),
              by_table=st.booleans())
        def sweep(self, k, delta, n, by_table):
            o = self.r.o
            stride = o.table_span if by_table and o.table_span < o.size else o.unit
            count = min(4300, o.size // stride + 1)
            if count * n > (8 << 20):
                count = (8 << 20) // n
            start = (k % 3) * stride
            self.do(["sweep", start, stride, count, delta, n])

        @precondition(lambda self: self.alive() and self.huge_left and self.r.o.size > (34 << 20))
        @rule(n=st.sampled_from([(32 << 20) + 1, (33 << 20) + 4097, 70 << 20]), k=st.integers(0, 10000), d=st.sampled_from([0, 512, BUFSIZE + 1]))
        def huge_read(self, n, k, d):
            """One very long request in a single call (per-call caps, scratch buffers shared between calls)."""
            self.huge_left = 0
            o = self.r.o
            off = min(max(0, o.points[k % len(o.points)] - 4096 + d), max(0, o.size - n))
            self.do(["readoffset", off, n])

        @precondition(lambda self: self.alive() and getattr(self.r.o, "views", None))
        @rule(i=st.integers(0, 3))
        def switch_view(self, i):
            """Address another view of the same image (QCOW2 active view / internal snapshots); each view has its own position."""
            self.do(["view", i])

        @rule()
        def tell(self):  # always enabled: once a failure is recorded the other rules switch off and this one idles
            self.do(["tell"])

        def teardown(self):
            if self.r is None:
                return
            spec = {"cls": cls, "image": self.image, "ops": self.ops, "bufsize": BUFSIZE}
            out = Outcome()
            self.r.final_check()
            if self.r.failure:
                sig = self.r.failure[0]
                if sig not in col.failures or col.failures[sig]["count"] < 2:
                    try:
                        spec = minimise(spec, sig)
                    except Exception:  # noqa: BLE001
                        pass
                out.fail(*self.r.failure)
            out.nontrivial = self.r.nontrivial()
            out.cls(cls, f"buf={BUFSIZE}", f"ops={min(len(self.ops) // 10 * 10, 80)}+")
            if any(o[0] == "sweep" for o in self.ops):
                out.cls("has-sweep")
            if self.r.view_switches:
                out.cls(f"view-switches={min(self.r.view_switches, 5)}+" if self.r.view_switches >= 5 else f"view-switches={self.r.view_switches}")
            col.handle(spec, out)

    StreamMachine.__name__ = f"StreamMachine_{cls.replace('-', '_')}"
    return StreamMachine


def run_shard(col, tier, seed, shard, nshards, args):
    from hypothesis import HealthCheck, Phase, settings
    from hypothesis import seed as hseed

    for ci, cls in enumerate(CLASSES):
        if ci % nshards != shard:
            continue
        machine = make_machine(cls, tier, col)
        sett = settings(max_examples=sequences_per_class(tier), stateful_step_count=steps(tier), deadline=None, database=None,
                        phases=(Phase.generate,), suppress_health_check=list(HealthCheck), report_multiple_bugs=False,
                        derandomize=False, print_blob=False)
        try:
            run_state_machine_as_test(hseed(seed * 1009 + ci * 31 + (BUFSIZE % 9973))(machine), settings=sett)
        except Exception as e:  # noqa: BLE001
            # Hypothesis re-executes prefixes of a history; code under test that keeps state between objects makes the same prefix
            # behave differently the second time ("flaky").  If histories of this class already failed (each with its own
            # replay), that is the finding and the search for this class simply ends here; otherwise it is a harness problem.
            flaky = type(e).__name__.startswith("Flaky") or "Flaky" in type(e).__name__
            if not (flaky and any(k.endswith("|" + cls) or f"|{cls}" in k for k in col.failures)):
                raise
