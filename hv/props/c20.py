"""C20 — vmtar: every member extracts to the bytes stored at its recorded data offset."""
from __future__ import annotations

import gzip
import io
import os
import shutil
import tempfile
import struct
import tarfile

from hypothesis import strategies as st

from hv.core import track as core_track
from hv.core import DEBUG_LOG_ENV, Outcome, lib, lib_delegating
from hv.sparse import pattern

ID = "C20"
TECHNIQUE = ("property-based testing with an archive builder (stdlib TarInfo.tobuf headers patched to visor headers, checksum "
             "recomputed) and a differential against the standard tarfile reader for non-visor archives")
RULE = (
    "Hypothesis draws archives of 0..12 members in any order: visor regular files (size 1..20000, data placed anywhere behind the "
    "header area: ascending, descending or shuffled, page-aligned or unaligned with gaps, offsets beyond 64 KiB), visor "
    "directories and empty files (data offset 0), ordinary ustar / GNU / PAX members with inline data, directories, symlinks, "
    "long names (GNU L records, PAX path records with or without a size record, ustar prefixes up to 155 bytes that overlap the visor offset field), end-of-"
    "archive blocks and trailing padding; payloads that are themselves tar archives (valid block-aligned headers inside the data "
    "area, possibly repeating an outer name); the data area placed around and above 2^31 (sparse in-memory handle); plain and "
    "gzip-wrapped; ordinary archives handed over at a non-zero position of a larger file; archives opened by file name (any extension, whatever the "
    "content) after an unrelated archive was opened from a handle; gzip wrapping in one or several concatenated members. Headers come from TarInfo.tobuf and are patched (magic "
    "'visor  ', little-endian data offset at 496, page counts at 504/508, checksum recomputed). Oracle: names, types and sizes "
    "in header order equal the spec, extractfile(m).read() equals the bytes placed at the recorded offset; archives without "
    "visor members must list and extract exactly as tarfile.open does. Non-trivial = >= 2 visor files whose data order "
    "differs from header order, or visor and inline members mixed."
    " Solaris 'X' extended headers; the archive object dropped before member data is read; a second process variant with debug logging on."
)
RULE += ' Round 10: stored names not in normal form; lookups by name compared with access by TarInfo; two readers on one unbuffered raw handle.'
ASSUMPTIONS = [
    "visor headers are followed directly by the next header; file data of visor members lives behind the header area (with or "
    "without end-of-archive blocks in between) or, for aliased members, inside the inline data of an earlier ordinary member",
    "visor members with long names use GNU or PAX long-name records or a ustar prefix of at most 151 bytes (the visor offset field "
    "starts where a longer prefix would continue; a prefix of exactly 151 bytes only with data offsets whose low byte is zero)",
]

def _decoy() -> bytes:
    ti = tarfile.TarInfo("decoy-member")
    ti.size = 5
    return ti.tobuf(tarfile.USTAR_FORMAT) + b"decoy".ljust(512, b"\0") + bytes(1024)


DECOY = _decoy()
NAME_PARTS = ["etc", "vmware", "file1", "a b", "ünï", "lib64", "x" * 40, "conf.d", "s", "test"]


def budget(tier):
    return 14000 if tier == "quick" else 50000


VARIANT_DISTINCT_SEEDS = True


def variants(tier):
    # listing and extraction must not depend on the package's logging switches
    return [{"name": "default", "env": {}, "shards": 12},
            {"name": "debug-logging", "env": DEBUG_LOG_ENV, "args": {"budget_scale": 0.2}, "shards": 4}]


def content(m) -> bytes:
    """The stored bytes of a regular member."""
    n = m.get("nested")
    if n:
        ti = tarfile.TarInfo(n["name"])
        ti.size = n["len"]
        return ti.tobuf(tarfile.USTAR_FORMAT) + pattern(m["key"], 0, n["len"]).ljust(-(-n["len"] // 512) * 512, b"\0") + bytes(512 * n["end_blocks"])
    return pattern(m["key"], 0, m["size"])


@st.composite
def member(draw, idx):
    kind = draw(st.sampled_from(["visor-file", "visor-file", "visor-file", "visor-dir", "visor-empty", "std-file", "std-dir", "std-symlink", "std-empty"]))
    depth = draw(st.integers(1, 3))
    name = "/".join(draw(st.sampled_from(NAME_PARTS)) for _ in range(depth)) + f"_{idx}"
    # stored names are listed as stored: a leading "./", doubled slashes, dot components (a standard tar reader does not tidy them)
    name = draw(st.sampled_from(["", "", "", "", "./", ".//", "a/../", "./a/./", "b//"])) + name
    longname = draw(st.sampled_from([None, None, None, "gnu", "pax", "ustar-prefix", "pax-solaris"]))
    if longname in ("gnu", "pax", "pax-solaris"):
        name = "/".join(["d" * 30] * draw(st.integers(4, 8))) + "/" + name
    elif longname == "ustar-prefix":
        pre = draw(st.sampled_from([120, 150, 151, 152, 153, 154, 155]))
        name = ("p" * pre) + "/" + f"n{idx}"
        if kind.startswith("visor") and pre > 151:
            kind = "std-file"  # see ASSUMPTIONS: the visor offset field starts where a prefix longer than 151 bytes would continue
    m = {"kind": kind, "name": name, "longname": longname, "mode": draw(st.sampled_from([0o644, 0o755, 0o600])), "mtime": draw(st.integers(0, 2**31 - 1))}
    if longname in ("pax", "pax-solaris") and draw(st.booleans()):
        m["pax_size"] = True  # the extended header also carries a size record (writers that record every attribute)
    if kind in ("visor-file", "std-file"):
        m["size"] = draw(st.one_of(st.integers(1, 600), st.sampled_from([511, 512, 513, 4096, 20000]), st.integers(1, 20000)))
        m["key"] = draw(st.integers(1, 1 << 30))
        m["text_pgs"] = draw(st.sampled_from([0, 0, 1, 5]))
        m["fixup_pgs"] = draw(st.sampled_from([0, 0, 2]))
        if draw(st.integers(0, 5)) == 0:
            # the payload is itself a tar archive (block-aligned valid headers inside the data area); its member may carry the
            # name of a member of the outer archive
            m["nested"] = {"name": draw(st.sampled_from([f"inner_{idx}", name if len(name.encode()) < 100 else "x", "etc/file1_0"])), "len": draw(st.sampled_from([0, 1, 512, 700])),
                           "end_blocks": draw(st.sampled_from([0, 2]))}
            m["size"] = len(content(m))
        if kind == "visor-file" and draw(st.integers(0, 7)) == 0:
            m["alias"] = True  # its data offset points into the inline data of an earlier ordinary member, i.e. in front of its own header
        if kind == "visor-file":
            # the byte behind the 7-byte magic (NUL in the sample, a version digit or space elsewhere) and the regular-file type flags
            m["magic_tail"] = draw(st.sampled_from([0, 0, 0, 0x30, 0x20]))
            m["regtype"] = draw(st.sampled_from(["0", "0", "0", "\0", "7"]))
    if kind == "std-symlink":
        m["linkname"] = draw(st.sampled_from(["target", "../x/y", "/bin/sh"]))
    return m


@st.composite
def archive_spec(draw, tier):
    n = draw(st.integers(0, 12))
    members = [draw(member(i)) for i in range(n)]
    align = draw(st.sampled_from([4096, 4096, 512, 1, 7]))
    for m in members:
        # a 151-byte prefix leaves no terminator in front of the offset field: only unambiguous when the offset's low byte is zero
        if m["kind"].startswith("visor") and m["longname"] == "ustar-prefix" and m["name"].startswith("p" * 151) and align not in (4096, 512):
            m["kind"] = "std-file" if m["kind"] == "visor-file" else "std-dir" if m["kind"] == "visor-dir" else "std-empty"
    visor_files = [i for i, m in enumerate(members) if m["kind"] == "visor-file"]
    order = draw(st.permutations(visor_files)) if draw(st.booleans()) else (list(reversed(visor_files)) if draw(st.booleans()) else visor_files)
    end_blocks = draw(st.sampled_from([2, 2, 3, 8, 0]))
    if end_blocks == 0 and (not members or any(m.get("nested") for m in members)):
        end_blocks = 2  # without an end-of-archive marker a payload that is itself a tar archive would legitimately read on as headers
    return {"members": members, "data_order": list(order), "align": align,
            "gap": draw(st.sampled_from([0, 0, 1, 5000, 70000])), "end_blocks": end_blocks,
            "trailing": draw(st.sampled_from([0, 0, 512, 10240, 100])), "gzip": draw(st.booleans()), "via": draw(st.sampled_from(["fileobj", "fileobj", "name", "tempfile", "minimal", "raw-shared"])),
            # the data area far behind the headers: recorded offsets around and above 2^31 (uncompressed archives, sparse handle)
            "far": draw(st.sampled_from([0, 0, 0, 0, 0x7FFFF000, 0x80000000, 0xC0000000, 0xFFF00000])),
            # bytes in front of the archive inside the same file; the handle is handed over positioned at the archive's start
            # (ordinary uncompressed archives: compared with what tarfile.open does with the same handle)
            "prefix": draw(st.sampled_from([0, 0, 0, 1, 512, 700, 10240])),
            # gzip-wrapped archives as several concatenated gzip members (cut points in 512-byte blocks); the file name used when
            # an archive is opened by name, whose extension says nothing reliable about the content
            "gzip_cuts": draw(st.lists(st.integers(1, 60), max_size=3, unique=True)),
            "drop_archive": draw(st.integers(0, 7)) == 0,
            "file_name": draw(st.sampled_from(["archive.v00", "s.v00", "imgdb.tgz", "state.tgz", "s.vgz", "x.gz", "UPPER.VGZ", "noext"]))}


def strategy(tier):
    return archive_spec(tier)


def _checksum(block: bytearray) -> None:
    block[148:156] = b" " * 8
    s = sum(block)
    block[148:156] = b"%06o\x00 " % s


def _header(m) -> bytes:
    ti = tarfile.TarInfo(m["name"])
    ti.mode, ti.mtime, ti.uid, ti.gid, ti.uname, ti.gname = m["mode"], m["mtime"], 0, 0, "root", "root"
    k = m["kind"]
    if k in ("visor-dir", "std-dir"):
        ti.type = tarfile.DIRTYPE
    elif k == "std-symlink":
        ti.type = tarfile.SYMTYPE
        ti.linkname = m["linkname"]
    else:
        ti.type = tarfile.REGTYPE
        ti.size = m.get("size", 0)
    fmt = {"gnu": tarfile.GNU_FORMAT, "pax": tarfile.PAX_FORMAT, "pax-solaris": tarfile.PAX_FORMAT, "ustar-prefix": tarfile.USTAR_FORMAT,
           None: tarfile.USTAR_FORMAT}[m["longname"]]
    if m["longname"] is None and len(m["name"].encode()) > 100:
        fmt = tarfile.GNU_FORMAT
    if m.get("pax_size") and fmt == tarfile.PAX_FORMAT and ti.type == tarfile.REGTYPE:
        ti.pax_headers = {"size": str(ti.size)}
    buf = ti.tobuf(fmt, "utf-8", "surrogateescape")
    if m["longname"] == "pax-solaris" and len(buf) > 512 and buf[156:157] == tarfile.XHDTYPE:
        # the same extended header with the type flag Solaris tar writes ('X'), which readers treat like 'x'
        blk = bytearray(buf[:512])
        blk[156:157] = tarfile.SOLARIS_XHDTYPE
        _checksum(blk)
        buf = bytes(blk) + buf[512:]
    return buf


def build(spec):
    """-> (archive bytes (uncompressed), expected [(name, type, size, data | None)])"""
    head, pieces, total, expected = build_parts(dict(spec, far=0))
    out = bytearray(total)
    out[: len(head)] = head
    for off, data in pieces:
        out[off : off + len(data)] = data
    return bytes(out), expected


def build_sparse(spec):
    """The same archive as an in-memory sparse handle (for data areas placed gigabytes behind the headers)."""
    from hv.sparse import SparseFile

    head, pieces, total, expected = build_parts(spec)
    fh = SparseFile(total)
    fh.put(0, head)
    for off, data in pieces:
        if data:
            fh.put(off, data)
    return fh, expected


def build_parts(spec):
    """-> (header area bytes, [(offset, data)] of the visor data area, total length, expected [(name, type, size, data | None)])"""
    members = [dict(m) for m in spec["members"]]
    alias_src = {}
    for i, m in enumerate(members):
        if m["kind"] == "visor-file" and m.get("alias") and not m.get("nested"):
            src = [j for j in range(i) if members[j]["kind"] == "std-file" and members[j]["size"] >= 1]
            if src:
                alias_src[i] = src[-1]
                m["size"] = min(m["size"], members[src[-1]]["size"])
    headers = []
    for m in members:
        headers.append(bytearray(_header(m)))
    # size of the header area (std members carry inline data)
    pos = 0
    layout = []
    for m, h in zip(members, headers):
        start = pos
        pos += len(h)
        if m["kind"] == "std-file":
            pos += -(-m["size"] // 512) * 512
        layout.append(start)
    end_of_headers = pos + 512 * spec["end_blocks"]
    # data area for visor files
    offsets = {}
    cur = max(end_of_headers + spec["gap"], spec.get("far", 0))
    a = spec["align"]
    for i in spec["data_order"]:
        if i in alias_src:
            continue
        cur = -(-cur // a) * a
        offsets[i] = cur
        cur += members[i]["size"] + (spec["gap"] % 977)
    for i, j in alias_src.items():
        offsets[i] = layout[j] + len(headers[j])
    total = cur + spec["trailing"]
    if max(offsets.values(), default=0) >= 1 << 32:
        raise ValueError("data offset does not fit the 32-bit field")
    out = bytearray(end_of_headers)
    pieces = []
    expected = []
    for i, (m, h) in enumerate(zip(members, headers)):
        k = m["kind"]
        real = len(h) - 512
        if k.startswith("visor"):
            h[real + 257 : real + 265] = b"visor  " + bytes([m.get("magic_tail", 0)])
            if m.get("regtype", "0") != "0":
                h[real + 156] = ord(m["regtype"])
            off = offsets.get(i, 0)
            h[real + 496 : real + 500] = struct.pack("<I", off)
            h[real + 504 : real + 512] = struct.pack("<II", m.get("text_pgs", 0), m.get("fixup_pgs", 0))
            blk = bytearray(h[real:])
            _checksum(blk)
            h[real:] = blk
        out[layout[i] : layout[i] + len(h)] = h
        data = None
        if k == "visor-file" and i in alias_src:
            data = content(members[alias_src[i]])[: m["size"]]
        elif k == "visor-file":
            data = content(m)
            pieces.append((offsets[i], data))
        elif k == "std-file":
            data = content(m)
            p = layout[i] + len(h)
            out[p : p + m["size"]] = data
        elif k in ("visor-empty", "std-empty"):
            data = b""
        typ = {"visor-dir": tarfile.DIRTYPE, "std-dir": tarfile.DIRTYPE, "std-symlink": tarfile.SYMTYPE}.get(k, tarfile.REGTYPE)
        if k == "visor-file" and m.get("regtype", "0") != "0":
            typ = m["regtype"].encode()
        expected.append((m["name"].rstrip("/"), typ, m.get("size", 0), data))
    return bytes(out), pieces, total, expected


def nontrivial(spec) -> bool:
    vf = [i for i, m in enumerate(spec["members"]) if m["kind"] == "visor-file"]
    std = any(m["kind"].startswith("std") for m in spec["members"])
    return (len(vf) >= 2 and spec["data_order"] != vf) or (bool(vf) and std)


def read_all_dropping(open_fn):
    """As read_all, but the caller keeps only the member handles: the archive object is let go before any data is read (a helper
    that returns `vmtar.open(path).extractfile(name)`)."""
    import gc

    t = open_fn()
    handles = [(m.name, m.type, m.size, t.extractfile(m) if m.isreg() else None, m.linkname) for m in t.getmembers()]
    del t
    gc.collect(1)
    try:
        return [(n, ty, s, f.read() if f is not None else None, ln) for n, ty, s, f, ln in handles]
    finally:
        for _n, _ty, _s, f, _ln in handles:
            if f is not None:
                f.close()


BY_NAME: list = []  # discrepancies between access by TarInfo and access by member name, reset by check()


def read_all(t):
    res = []
    members = t.getmembers()
    for m in members:
        f = t.extractfile(m) if m.isreg() else None  # isreg(): REGTYPE, AREGTYPE, CONTTYPE
        res.append((m.name, m.type, m.size, f.read() if f is not None else None, m.linkname))
    # the same members looked up by name (names that occur once): getmember(name) / extractfile(name) answer from this archive
    counts = {}
    for m in members:
        counts[m.name] = counts.get(m.name, 0) + 1
    for m, r in list(zip(members, res))[:6]:
        if counts[m.name] != 1:
            continue
        try:
            m2 = t.getmember(m.name)
            if (m2.name, m2.size, m2.offset, getattr(m2, "offset_data", None)) != (m.name, m.size, m.offset, getattr(m, "offset_data", None)):
                BY_NAME.append(f"getmember({m.name!r}) is not the listed member")
            elif m.isreg():
                f2 = t.extractfile(m.name)
                if f2.read() != r[3]:
                    BY_NAME.append(f"extractfile({m.name!r}) by name returned other bytes than extractfile(member)")
        except KeyError:
            BY_NAME.append(f"getmember({m.name!r}) raised KeyError for a listed member")
    return res


def check(spec) -> Outcome:
    from dissect.hypervisor.util import vmtar

    out = Outcome()
    far = spec.get("far", 0) and not spec["gzip"] and any(m["kind"] == "visor-file" for m in spec["members"])
    if far:
        sparse_fh, expected = build_sparse(spec)
        out.cls("far-data")
        blob = None
    else:
        raw, expected = build(spec)
        if spec["gzip"]:
            cuts = sorted({min(c * 512, len(raw)) for c in spec.get("gzip_cuts", [])} - {0, len(raw)})
            parts = [raw[a:b] for a, b in zip([0] + cuts, cuts + [len(raw)])]
            blob = b"".join(gzip.compress(p_, 1, mtime=0) for p_ in parts)
            if len(parts) > 1:
                out.cls("multi-member-gzip")
        else:
            blob = raw
    has_visor = any(m["kind"].startswith("visor") for m in spec["members"])
    out.nontrivial = nontrivial(spec)
    out.cls("gzip" if spec["gzip"] else "plain", "visor" if has_visor else "no-visor", f"members={min(len(spec['members']) // 4 * 4, 12)}+")
    if any(m["longname"] for m in spec["members"]):
        out.cls("long-names")
    if any(m.get("nested") for m in spec["members"]):
        out.cls("nested-tar-payload")
    if any(m.get("pax_size") and m["kind"] == "visor-file" for m in spec["members"]):
        out.cls("pax-size-record-visor")

    # (not for gzip-wrapped archives: the standard library's GzipFile rewinds to offset 0 of the underlying file when a member
    # is read out of order, whoever opened it)
    prefix = spec.get("prefix", 0) if not far and not spec["gzip"] and not has_visor else 0
    if prefix:
        out.cls("prefixed")
    by_name = spec.get("via") == "name" and not far and not prefix
    if by_name:
        out.cls("via-name")
    if spec.get("drop_archive"):
        out.cls("archive-object-dropped-before-reading")

    def run():
        if by_name:
            # opened by file name, right after an unrelated archive was opened from a handle with an explicit mode
            d = tempfile.mkdtemp(prefix="c20-", dir="/dev/shm" if os.path.isdir("/dev/shm") else None)
            try:
                p = os.path.join(d, spec.get("file_name", "archive.v00"))
                with open(p, "wb") as f:
                    f.write(blob)
                other = vmtar.open(fileobj=io.BytesIO(DECOY), mode="r:")
                other.getmembers()
                if spec.get("drop_archive"):
                    try:
                        return read_all_dropping(lambda: vmtar.open(p))
                    finally:
                        other.close()
                t = vmtar.open(p)
                try:
                    return read_all(t)
                finally:
                    t.close()
                    other.close()
            finally:
                shutil.rmtree(d, ignore_errors=True)
        if spec.get("via") == "minimal" and not far and not prefix and not spec["gzip"]:
            # a duck-typed file object with read / seek / tell / close only
            from hv.core import MinimalHandle

            t = vmtar.open(fileobj=MinimalHandle(blob))
            try:
                return read_all(t)
            finally:
                t.close()
        if spec.get("via") == "raw-shared" and not far and not prefix and not spec["gzip"]:
            # an unbuffered raw file (open(..., buffering=0)) that two readers share, their chunked member reads interleaved
            d = tempfile.mkdtemp(prefix="c20-", dir="/dev/shm" if os.path.isdir("/dev/shm") else None)
            try:
                p = os.path.join(d, "shared.v00")
                with open(p, "wb") as f:
                    f.write(blob)
                with open(p, "rb", buffering=0) as h:
                    t1 = vmtar.open(fileobj=h)
                    h.seek(0)
                    t2 = vmtar.open(fileobj=h)
                    m1, m2 = t1.getmembers(), t2.getmembers()
                    res = []
                    for a, b in zip(m1, reversed(m2)):
                        fa = t1.extractfile(a) if a.isreg() else None
                        fb = t2.extractfile(b) if b.isreg() else None
                        da, db = b"", b""
                        while True:
                            ca = fa.read(5000) if fa is not None else b""
                            cb = fb.read(3000) if fb is not None else b""
                            h.seek(len(da) % 977)  # the caller moves its handle as well
                            da += ca
                            db += cb
                            if not ca and not cb:
                                break
                        res.append((a.name, a.type, a.size, da if fa is not None else None, a.linkname))
                        ob = next((r for r in res if r[0] == b.name and r[3] is not None), None)
                        if fb is not None and ob is not None and ob[3] != db and sum(1 for x in m2 if x.name == b.name) == 1:
                            BY_NAME.append(f"member {b.name!r} read through the second of two readers sharing a raw handle differs")
                    t1.close()
                    t2.close()
                    return res
            finally:
                shutil.rmtree(d, ignore_errors=True)
        if spec.get("via") == "tempfile" and not far and not prefix:
            # an anonymous temporary file: a handle whose .name is an integer (a file descriptor), not a path
            with tempfile.TemporaryFile() as tf:
                tf.write(blob)
                tf.seek(0)
                t = vmtar.open(fileobj=tf)
                try:
                    return read_all(t)
                finally:
                    t.close()
        if prefix:
            fh = core_track(bytes((i * 31 + 7) & 0xFF for i in range(prefix)) + blob)
            fh.seek(prefix)
        else:
            fh = sparse_fh if far else core_track(blob)
        if spec.get("drop_archive"):
            return read_all_dropping(lambda: vmtar.open(fileobj=fh))
        t = vmtar.open(fileobj=fh)
        try:
            return read_all(t)
        finally:
            t.close()

    BY_NAME.clear()
    got, err = lib_delegating("vmtar.py:open(tarfile)", run)
    if err:
        out.fail(err.sig("vmtar"), f"vmtar.open / extract raised {err.describe()}")
        return out
    if BY_NAME:
        out.fail("mismatch|lookup-by-name", BY_NAME[0])
    names = [(n, t, s) for n, t, s, _d, _l in got]
    exp_names = [(n, t, s) for n, t, s, _d in expected]
    if names != exp_names:
        out.fail("mismatch|listing", f"members {names[:6]} != {exp_names[:6]} (got {len(names)}, expected {len(exp_names)})")
        return out
    for (n, t, s, d, _l), (_en, _et, _es, ed) in zip(got, expected):
        if d != ed:
            out.fail("mismatch|content", f"member {n!r}: extracted {None if d is None else len(d)} bytes differ from the {None if ed is None else len(ed)} stored")
            break
    if not has_visor:
        ref_fh = io.BytesIO(bytes(prefix) + blob)
        ref_fh.seek(prefix)
        ref = tarfile.open(fileobj=ref_fh)
        try:
            exp = read_all(ref)
        finally:
            ref.close()
        if got != exp:
            out.fail("mismatch|tarfile-differential", "a non-visor archive is listed/extracted differently from tarfile.open")
    return out
