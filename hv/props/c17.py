"""C17 — Hyper-V VMCX/VMRS: decoded tree equals the stored key/value tree."""
from __future__ import annotations

import io
import struct

from hypothesis import strategies as st

from hv.builders import hyperv as bh
from hv.core import track as core_track
from hv.core import Outcome, lib

ID = "C17"
RULE = (
    "Hypothesis draws a key/value tree (depth 0..5, fan-out 0..8, UTF-8 keys of 1..60 bytes incl. multi-byte characters and of 126..254 bytes, values "
    "of all types: Int (full int64), UInt (full uint64), Double (incl. +-inf, -0.0, NaN compared by bit pattern), String "
    "(UTF-16-LE incl. astral characters and leading U+FEFF / U+FFFE and embedded / trailing U+0000, length 0..3000), Array (0..6000 bytes), Bool; values >= 0x800 bytes and some smaller "
    "ones stored in file objects) and a serialisation: entries distributed over 1..6 key tables (numbered 1..N or with gaps / high "
    "indices) in shuffled order with "
    "parents in other tables, free entries (with zeroed or stale, unresolvable parent references) and slack bytes interleaved, file "
    "objects behind the tables or at offsets around and beyond 4 GiB (sparse in-memory file), table tail zero-filled or a free entry, stale key "
    "tables with the same index and a lower sequence number (different content) before or after the active one, object-table "
    "holes (unallocated entries of any type) and a chained second object table, two file headers with distinct sequence "
    "numbers in either slot where the inactive one may carry version 0x300, a wrong signature or a bogus replay-log offset. "
    "Oracle: HyperVFile(fh).as_dict() == tree with exact Python types (bool vs int, float by bit pattern), per-leaf "
    "hf[...]...value, header.sequence_number and replay_logs[0].offset of the active header. Non-trivial = >= 2 key tables, "
    ">= 1 file-object value and >= 3 value types."
    ' Key tables filled to their last byte ending in a 27..30-byte entry; files opened through a minimal file object; top-level entries that outlive the HyperVFile object.'
)
RULE += ' Round 10: the dumped dictionary is wrecked by the caller and the file dumped again; values directly below the root.'
ASSUMPTIONS = [
    "checksums are written as zero: their algorithm is not public and the reader does not verify them",
    "root-level entries are mostly nodes; one tree in six also has values at the top level",
    "the unused tail of a key table is at least one entry header (21 bytes) long, zero-filled or a free entry",
    "the replay log has no outstanding entries (replaying a dirty log is documented as not implemented)",
]

KEY_ALPHABET = "abcdefghijklmnopqrstuvwxyzABCXYZ0123456789_-. {}ëß中\U0001F98A"
# incl. the code units that double as byte-order marks (U+FEFF, U+FFFE): values are UTF-16-LE whatever they start with
STR_ALPHABET = "abcXYZ 0123456789\\:/-_.{}äöü€\U0001F600中\ufeff\ufffe"


def budget(tier):
    return 5000 if tier == "quick" else 50000


@st.composite
def leaf(draw):
    t = draw(st.sampled_from(["int", "uint", "double", "string", "array", "bool", "string", "int"]))
    if t == "int":
        v = draw(st.one_of(st.sampled_from([0, -1, 1, -(1 << 63), (1 << 63) - 1, -(1 << 31), 1 << 32]), st.integers(-(1 << 63), (1 << 63) - 1)))
    elif t == "uint":
        v = draw(st.one_of(st.sampled_from([0, 1, (1 << 63), (1 << 64) - 1, (1 << 63) - 1]), st.integers(0, (1 << 64) - 1)))
    elif t == "double":
        f = draw(st.one_of(st.sampled_from([0.0, -0.0, 1.5, float("inf"), float("-inf"), float("nan"), 1e308, 5e-324]), st.floats()))
        v = struct.pack("<d", f).hex()
    elif t == "string":
        n = draw(st.sampled_from([0, 1, 8, 36, 36, 100, 1023, 1024, 1025, 2047, 2048, 2049, 3000, 4096]))  # 2048 characters = one 4 KiB alignment unit
        v = draw(st.text(alphabet=STR_ALPHABET, min_size=min(n, 3), max_size=n)) if n < 200 else (draw(st.text(alphabet=STR_ALPHABET, min_size=1, max_size=8)) * n)[:n]
        if n and draw(st.integers(0, 7)) == 0:
            v = draw(st.sampled_from(["\ufeff", "\ufffe"])) + v[1:]
        if draw(st.integers(0, 9)) == 0:
            v = draw(st.sampled_from([v[:-1] + "\x00", "\x00", v[: len(v) // 2] + "\x00" + v[len(v) // 2 + 1:], v[:-2] + "\x00\x00"]))  # NULs are data
    elif t == "array":
        n = draw(st.sampled_from([0, 1, 16, 100, 2047, 2048, 2049, 4095, 4096, 4097, 6000, 8192]))  # incl. exact multiples of the alignment
        v = bytes((i * 7 + n) & 0xFF for i in range(n)).hex()
    else:
        v = draw(st.booleans())
    return t, v


@st.composite
def tree_spec(draw, tier):
    ntables = draw(st.integers(1, 6))
    entries = []
    counter = [0]

    def add(parent, key, typ, value, depth):
        eid = counter[0]
        counter[0] += 1
        size = len(bh.value_bytes({"type": typ, "value": value})) if typ != "node" else 12
        fo = typ in ("string", "array") and (size >= 0x800 or draw(st.integers(0, 5)) == 0)
        entries.append({"id": eid, "parent": parent, "key": key, "type": typ, "value": value, "table": draw(st.integers(1, ntables)),
                        "fo": fo, "flag2": typ in ("string", "array") and draw(st.integers(0, 3)) == 0, "slack": draw(st.sampled_from([0, 0, 0, 3, 16])), "ins": draw(st.integers(0, 50)), "depth": depth})
        return eid

    def keys(n):
        ks = draw(st.lists(st.text(alphabet=KEY_ALPHABET, min_size=1, max_size=draw(st.sampled_from([4, 12, 30]))).filter(lambda k: len(k.encode()) <= 60),
                           min_size=n, max_size=n, unique=True))
        # the key's length + terminator is stored in one unsigned byte: keys of up to 254 bytes
        for i in range(len(ks)):
            if draw(st.integers(0, 11)) == 0:
                target = draw(st.sampled_from([126, 127, 128, 200, 253, 254]))
                pad = ks[i]
                while len((pad + "k").encode()) <= target:
                    pad += "k"
                if pad not in ks:
                    ks[i] = pad
        return ks

    nroot = draw(st.integers(0, 3))
    frontier = []
    root_leaves = draw(st.integers(0, 5)) == 0  # the top level may hold values as well as nodes (an entry whose parent is the root)
    for k in keys(nroot):
        if root_leaves and draw(st.booleans()):
            t, v = draw(leaf())
            add(None, k, t, v, 0)
        else:
            frontier.append((add(None, k, "node", None, 0), 0))
    budget_entries = draw(st.sampled_from([5, 15, 40, 80]))
    while frontier and len(entries) < budget_entries:
        parent, depth = frontier.pop(draw(st.integers(0, len(frontier) - 1)))
        fan = draw(st.integers(0, 8))
        for k in keys(fan):
            if len(entries) >= budget_entries:
                break
            if depth < 5 and draw(st.integers(0, 3)) == 0:
                frontier.append((add(parent, k, "node", None, depth + 1), depth + 1))
            else:
                t, v = draw(leaf())
                add(parent, k, t, v, depth + 1)
    order = draw(st.permutations(list(range(len(entries)))))
    entries = [entries[i] for i in order]
    tables = {}
    for t in range(1, ntables + 1):
        tables[str(t)] = {
            "seq": draw(st.integers(1, 65535)), "tail": draw(st.sampled_from(["zero", "free"])),
            "free": draw(st.lists(st.tuples(st.integers(0, 12), st.sampled_from([21, 30, 47, 100])), max_size=3, unique_by=lambda x: x[0])),
            "stale": draw(st.sampled_from([None, None, {"seq": draw(st.integers(0, 65535))}])), "stale_first": draw(st.booleans()),
            # free entries that still carry the parent reference they had: an offset inside free space, a table that is gone
            "free_stale_parent": draw(st.sampled_from([None, None, [t, 11], [t, 0x7FF0], [ntables + 3, 10], [0xFFFF, 0xFFFFFFFF]])),
        }
    for t in range(1, ntables + 1):
        if any(e["type"] == "node" for e in entries) and draw(st.integers(0, 3)) == 0:
            # a table filled to its last byte (no free tail) whose last live entry is one of the smallest the format has: a Bool or
            # an empty inline String / Array under a key of 1..4 bytes, without spare room (27..30 bytes)
            nodes = [e for e in entries if e["type"] == "node"]
            parent = draw(st.sampled_from(nodes))["id"]  # (the top level holds nodes only)
            taken = {e["key"] for e in entries if e["parent"] == parent}
            key = next(k for k in (c * n for n in (draw(st.integers(1, 4)), 5) for c in "~^|@") if k not in taken)
            typ, val = draw(st.sampled_from([("bool", True), ("bool", False), ("string", ""), ("array", "")]))
            entries.append({"id": counter[0], "parent": parent, "key": key, "type": typ, "value": val, "table": t, "fo": False, "flag2": False,
                            "slack": 0, "ins": 1, "depth": 1, "tight": True})
            counter[0] += 1
            tables[str(t)]["exact_fill"] = True
    s1 = draw(st.integers(0, 65535))
    s2 = draw(st.integers(0, 65535).filter(lambda x: x != s1))
    spec = {
        "entries": entries, "tables": tables, "headers": {"seq": [s1, s2], "bad_other": draw(st.sampled_from(["", "", "version", "signature", "replay"]))},
        "object_table": {"holes": draw(st.lists(st.integers(0, 8), max_size=3, unique=True)), "hole_type": draw(st.sampled_from([0, 0, 2, 3, 4])),
                         "chain_at": draw(st.sampled_from([None, None, 0, 1, 3])), "trailing": draw(st.integers(0, 3)),
                         "chain_depth": draw(st.sampled_from([1, 2, 2])), "chain_backwards": draw(st.booleans())},
        "gap": draw(st.sampled_from([0, 0, 1])), "start_pos": draw(st.sampled_from([None, None, None, 4, 0x1000, "end"])),
        # file objects at absolute offsets around and beyond 4 GiB (sparse in-memory file)
        "fo_far": draw(st.sampled_from([0, 0, 0, "tail", "tail", 0xFFFFF000, 1 << 32, (1 << 32) + 0x5000, 0x2_8000_0000])),
        # the caller's side: a file object with read / seek / tell only; entries that outlive the HyperVFile object they came from
        "via_minimal": draw(st.sampled_from([None, None, None, "plain", "seek-none"])), "drop_root": draw(st.integers(0, 5)) == 0,
    }
    if draw(st.integers(0, 2)) == 0:
        # key-table indices need not be 1..N: gaps and high indices
        new_idx = sorted(draw(st.lists(st.integers(1, 40), min_size=ntables, max_size=ntables, unique=True)))
        remap = {t: new_idx[t - 1] for t in range(1, ntables + 1)}
        for e in spec["entries"]:
            e["table"] = remap[e["table"]]
        spec["tables"] = {str(remap[int(k)]): v for k, v in spec["tables"].items()}
        for v in spec["tables"].values():
            fsp = v.get("free_stale_parent")
            if fsp and fsp[0] in remap:
                v["free_stale_parent"] = [remap[fsp[0]], fsp[1]]
    return spec


def strategy(tier):
    return tree_spec(tier)


def _base(entries, tables, **kw):
    return dict({"entries": entries, "tables": tables, "headers": {"seq": [7, 3], "bad_other": ""},
                 "object_table": {"holes": [], "hole_type": 0, "chain_at": None, "trailing": 0, "chain_depth": 1, "chain_backwards": False},
                 "gap": 0, "fo_far": 0}, **kw)


EXHAUSTIVE_NOTE = "deep chains (400 / 700 / 900 levels, decoded with the recursion budget a shallow caller has) and completely full object tables"
EXHAUSTIVE_SHARDS = 4


def exhaustive(tier):
    # a tree is as deep as its file says: chains of several hundred levels, decoded with ~990 free stack frames
    for n in (400, 700, 900):
        ents = [{"id": i, "parent": (i - 1 if i else None), "key": f"k{i}", "type": "node", "value": None, "table": 1 + i % 3, "fo": False,
                 "slack": 0, "ins": 1, "depth": i} for i in range(n)]
        ents.append({"id": n, "parent": n - 1, "key": "leaf", "type": "int", "value": 7, "table": 1, "fo": False, "slack": 0, "ins": 1, "depth": n})
        yield _base(ents, {"1": {"seq": 3}, "2": {"seq": 4}, "3": {"seq": 5}}, deep_chain=n)
    # an object table whose 227 slots are all in use (file objects + key tables), the last slot holding a key table / a file object
    for last in ("key-table", "file-object"):
        nkt = 4
        nfo = 227 - nkt
        ents = [{"id": 0, "parent": None, "key": "root", "type": "node", "value": None, "table": 1, "fo": False, "slack": 0, "ins": 1, "depth": 0}]
        for i in range(nfo):
            ents.append({"id": 1 + i, "parent": 0, "key": f"v{i}", "type": "array", "value": bytes([i % 251] * 8).hex(), "table": 1 + i % nkt,
                         "fo": True, "slack": 0, "ins": 1, "depth": 1})
        tables = {str(t): {"seq": 2 + t} for t in range(1, nkt + 1)}
        order = list(range(227)) if last == "file-object" else list(range(nkt, 227)) + list(range(nkt))
        spec = _base(ents, tables, full_object_table=last)
        spec["object_table"]["order"] = order
        yield spec


def typed(v):
    """Library value -> (type name, comparable)"""
    if isinstance(v, bool):
        return ("bool", v)
    if isinstance(v, int):
        return ("int", v)
    if isinstance(v, float):
        return ("double", struct.pack("<d", v).hex())
    if isinstance(v, str):
        return ("string", v)
    if isinstance(v, (bytes, bytearray, memoryview)):
        return ("array", bytes(v))
    return ("?", repr(v))


def compare(got, exp, path, out):
    if isinstance(exp, dict):
        if not isinstance(got, dict):
            out.fail("mismatch|node", f"{path}: expected a node, got {type(got).__name__}")
            return
        if set(got) != set(exp):
            out.fail("mismatch|keys", f"{path}: keys {sorted(set(got) ^ set(exp))[:4]} differ (missing or extra)")
            return
        for k in exp:
            compare(got[k], exp[k], path + "/" + k, out)
            if len(out.failures) > 2:
                return
        return
    et, ev = exp
    gt, gv = typed(got)
    if et in ("int", "uint"):
        ok = gt == "int" and gv == ev
    else:
        ok = (gt, gv) == (et, ev)
    if not ok:
        out.fail(f"mismatch|value-{et}", f"{path}: got {gt} {str(gv)[:60]!r}, expected {et} {str(ev)[:60]!r}")


def check(spec) -> Outcome:
    from dissect.hypervisor.descriptor.hyperv import HyperVFile

    out = Outcome()
    if spec.get("fo_far") == "tail":
        # file objects behind everything else, the file ending with the last value byte (writers do not pad to the allocation unit)
        probe, _m = bh.build(dict(spec, fo_far=0))
        spec = dict(spec, fo_far=-(-len(probe) // 0x1000) * 0x1000)
        unpadded = True
    else:
        unpadded = False
    data, meta = bh.build(spec)
    exp = bh.tree_of(spec) if not spec.get("deep_chain") else None  # (the chain is compared iteratively below)
    types = {e["type"] for e in spec["entries"]}
    nfo = sum(1 for e in spec["entries"] if e.get("fo"))
    out.nontrivial = meta["n_key_tables"] >= 2 and nfo >= 1 and len(types - {"node"}) >= 3
    out.cls(f"tables={meta['n_key_tables']}", "file-objects" if nfo else "inline-only", f"bad-other={spec['headers']['bad_other'] or 'none'}",
            "chained-object-table" if spec["object_table"]["chain_at"] is not None else "single-object-table")
    if any(t.get("exact_fill") for t in spec["tables"].values()):
        out.cls("exactly-full-table")
    if any(t.get("stale") for t in spec["tables"].values()):
        out.cls("stale-tables")
    if sorted(int(k) for k in spec["tables"]) != list(range(1, len(spec["tables"]) + 1)):
        out.cls("sparse-table-indices")
    if spec.get("full_object_table"):
        out.cls("full-object-table")
    if meta.get("far_objects"):
        from hv.sparse import SparseFile

        fh = SparseFile()
        fh.put(0, data)
        for off, vb in meta["far_objects"]:
            if vb:
                fh.put(off, vb)
        fh.grow(max(o + max(1, len(v)) for o, v in meta["far_objects"]) + (0 if unpadded else 0x1000))
        if unpadded:
            out.cls("unpadded-tail")
        out.cls("file-objects-beyond-4GiB" if any(o >= 1 << 32 for o, _v in meta["far_objects"]) else "file-objects-far")
    elif spec.get("via_minimal"):
        from hv.core import MinimalHandle

        fh = MinimalHandle(data, seek_returns_none=spec["via_minimal"] == "seek-none")
        out.cls("via-minimal-handle")
    else:
        fh = io.BytesIO(data)
    if spec.get("start_pos"):
        # the caller has used the handle before (sniffed a magic, hashed the file): every structure sits at an absolute offset
        fh.seek(0, 2) if spec["start_pos"] == "end" else fh.seek(min(spec["start_pos"], len(data)), 0)
        out.cls("handle-not-at-start")
    hf, err = lib(HyperVFile, fh)
    if err:
        out.fail(err.sig("hyperv-open"), f"HyperVFile() raised {err.describe()}")
        return out
    if hf.header.sequence_number != meta["active_seq"]:
        out.fail("mismatch|active-header", f"header.sequence_number {hf.header.sequence_number} != {meta['active_seq']}")
    if hf.replay_logs[0].offset != meta["replay_log_offset"]:
        out.fail("mismatch|active-header", f"replay log offset {hf.replay_logs[0].offset:#x} != {meta['replay_log_offset']:#x}")
    if spec.get("deep_chain"):
        import inspect
        import sys

        out.cls("deep-chain")
        old_limit = sys.getrecursionlimit()
        sys.setrecursionlimit(len(inspect.stack()) + 990)  # what a caller a few frames deep has with the default limit of 1000
        try:
            got, err = lib(hf.as_dict)
        finally:
            sys.setrecursionlimit(old_limit)
        if err:
            out.fail(err.sig("hyperv-as_dict-deep"), f"as_dict() of a {spec['deep_chain']}-level chain raised {err.describe()}")
            return out
        depth, cur = 0, got
        while isinstance(cur, dict) and len(cur) == 1:
            cur = next(iter(cur.values()))
            depth += 1
        if depth != spec["deep_chain"] + 1 or cur != 7:
            out.fail("mismatch|deep-chain", f"decoded chain is {depth} levels deep ending in {cur!r}, expected {spec['deep_chain'] + 1} ending in 7")
        out.nontrivial = True
        return out
    got, err = lib(hf.as_dict)
    if err:
        out.fail(err.sig("hyperv-as_dict"), f"as_dict() raised {err.describe()}")
        return out
    compare(got, exp, "", out)
    if out.failures:
        return out
    # the returned dictionary is the caller's: edited (emptied, a key added), it does not change what the file decodes to
    def wreck(d):
        for v_ in list(d.values()):
            if isinstance(v_, dict):
                wreck(v_)
        d.clear()
        d["edited-by-caller"] = 1

    if isinstance(got, dict) and spec.get("dump_twice", True):
        wreck(got)
        got2, err = lib(hf.as_dict)
        if err:
            out.fail(err.sig("hyperv-as_dict-again"), f"a second as_dict() raised {err.describe()}")
            return out
        compare(got2, exp, "", out)
        if out.failures:
            out.failures[:] = [type(f)("mismatch|hyperv-as_dict-again", "second as_dict() after the caller edited the first result: " + f.message) for f in out.failures[:1]]
            return out
    # per-leaf access through __getitem__ chains
    by_id = {e["id"]: e for e in spec["entries"]}
    tops = None
    if spec.get("drop_root"):
        # the caller keeps the top-level entries and lets go of the HyperVFile object (a helper that returns hf["configuration"])
        import gc

        tops, err = lib(lambda: {e["key"]: hf[e["key"]] for e in spec["entries"] if e["parent"] is None})
        if err:
            out.fail(err.sig("hyperv-getitem"), f"hf[top-level key] raised {err.describe()}")
            return out
        hf = None
        gc.collect(1)
        out.cls("root-object-dropped")
    for e in spec["entries"][:12]:
        if e["type"] == "node":
            continue
        path = []
        cur = e
        while cur is not None:
            path.append(cur["key"])
            cur = by_id.get(cur["parent"]) if cur["parent"] is not None else None
        path.reverse()

        def walk():
            node = hf if tops is None else tops[path[0]]
            for k in path if tops is None else path[1:]:
                node = node[k]
            return node.value

        v, err = lib(walk)
        if err:
            out.fail(err.sig("hyperv-getitem"), f"hf[{'/'.join(path)}].value raised {err.describe()}")
            break
        compare(v, bh.tree_of({"entries": [dict(e, parent=None)]})[e["key"]], "/".join(path), out)
    return out
