"""C19 — XML descriptors are parsed without entity expansion or external fetches."""
from __future__ import annotations

import io
import os
import shutil
import sys
import tempfile
import time
import tracemalloc
import xml.etree.ElementTree as StdET
from pathlib import Path

from hypothesis import strategies as st

from hv.builders import hdd as bhdd
from hv.builders import xmlcfg as bx
from hv.core import DEBUG_LOG_ENV, Outcome, lib
from hv.props import c18

ID = "C19"
TECHNIQUE = ("grammar-based generation of hostile DOCTYPE prologs around valid generated documents; must-raise oracle, audit-hook "
             "(open/socket/urllib) and canary oracle, CPU/tracemalloc budget, differential against xml.etree for benign documents")
RULE = (
    "Hypothesis wraps valid generated OVF / VirtualBox / PVS / Parallels DiskDescriptor documents in a prolog drawn from a "
    "grammar: internal general entities (nesting depth 1..12, fan-out 2..10: billion-laughs and quadratic blow-up), parameter "
    "entities, external general and parameter entities (file:// canary, http://127.0.0.1, relative path), unparsed NDATA "
    "entities, entities with empty replacement text or an empty system literal, external DTD subset only, internal subset "
    "without entities, no DOCTYPE; an external identifier in front of an internal subset; 0..300000 characters of comment / PI / "
    "white space in front of the DOCTYPE and inside the internal subset; entity referenced in element text / "
    "attribute or merely declared; str and bytes handles, UTF-8 with/without BOM and UTF-16, real files opened by the caller in text or binary mode, text whose XML declaration names another encoding. Entry points OVF(fh), VBox(fh), "
    "PVS(fh), HDD(dir) / hdd.Descriptor(path). Oracles: (1) a document that declares an entity makes the constructor raise; "
    "(2) for every document no audit event opens the canary or touches socket/urllib and the canary content appears in no "
    "parsed value; (3) CPU <= 2 s and tracemalloc peak <= 16 MiB + 8 x document size; (4) documents without entity "
    "declarations yield exactly the element tree xml.etree builds and the disk list of the C18 model. Non-trivial = the "
    "document declares >= 1 entity; distinct by (entry point, entity kind, depth, used/declared, encoding)."
    ' A quarter of the documents are parsed in a worker thread; entity names that are case variants of the predefined names; a second process variant with debug logging on; peak memory must stay below 1 MiB + 16 x input.'
)
RULE += ' Round 10: an undeclared parameter-entity reference in front of the entity declarations (open finding).'
ASSUMPTIONS = [
    "a DOCTYPE without entity declarations (external subset reference, ELEMENT/ATTLIST declarations) is a document 'without entity "
    "declarations' and must parse as usual",
]

ENTRY = ["ovf", "vbox", "pvs", "hdd"]
PROLOGS = ["internal", "internal", "internal-deep", "param", "external-general", "external-param", "ndata", "dtd-only", "subset-no-entity", "none",
           "internal-empty", "param-empty", "pe-ref-first", "pe-ref-first-external"]
LEADS = [0, 0, 0, 0, 40, 16384, 16400, 70000, 300000]
CANARY_TEXT = "CANARY-7f3a9c-SECRET-CONTENT"
_STATE = {"events": [], "active": False, "installed": False, "canary": None, "dir": None}


def budget(tier):
    return 20000 if tier == "quick" else 80000


VARIANT_DISTINCT_SEEDS = True


def variants(tier):
    # refusal must come before any expansion whatever the package's logging switches say
    return [{"name": "default", "env": {}, "shards": 12},
            {"name": "debug-logging", "env": DEBUG_LOG_ENV, "args": {"budget_scale": 0.2}, "shards": 4}]


def _hook(event, args):
    if not _STATE["active"]:
        return
    if event == "open":
        path = str(args[0]) if args else ""
        if _STATE["canary"] and (os.path.basename(_STATE["canary"]) in path or "hostile-rel" in path):
            _STATE["events"].append(("open", path))
    elif event in ("socket.connect", "socket.getaddrinfo", "socket.gethostbyname", "urllib.Request", "socket.bind"):
        _STATE["events"].append((event, repr(args)[:120]))


def ensure_env():
    if not _STATE["installed"]:
        sys.addaudithook(_hook)
        _STATE["installed"] = True
        root = os.environ.get("VERIF_SCRATCH") or ("/dev/shm" if os.path.isdir("/dev/shm") else None)
        d = tempfile.mkdtemp(prefix="c19-", dir=root)
        _STATE["dir"] = d
        _STATE["canary"] = os.path.join(d, "canary-7f3a9c.txt")
        with open(_STATE["canary"], "w") as f:
            f.write(CANARY_TEXT)
        # everything a first parse would import is imported now, so that per-case memory peaks show the case and not the imports
        import threading  # noqa: F401
        import xml.dom.minidom  # noqa: F401
        import xml.sax  # noqa: F401

        import dissect.hypervisor.descriptor.ovf  # noqa: F401
        import dissect.hypervisor.descriptor.pvs  # noqa: F401
        import dissect.hypervisor.descriptor.vbox  # noqa: F401
        import dissect.hypervisor.disk.hdd  # noqa: F401
        for kind, doc in (("ovf", "<Envelope xmlns='http://schemas.dmtf.org/ovf/envelope/1'/>"), ("vbox", "<VirtualBox/>"), ("pvs", "<ParallelsVirtualMachine/>")):
            try:
                _parse(kind, io.StringIO(doc))
            except Exception:  # noqa: BLE001 - warm-up only
                pass
        import atexit

        atexit.register(shutil.rmtree, d, True)
    return _STATE["canary"]


@st.composite
def hostile_spec(draw, tier):
    entry = draw(st.sampled_from(ENTRY))
    if entry == "hdd":
        base = {"kind": "hdd", "n": draw(st.integers(1, 3))}
    else:
        base = draw({"ovf": c18.ovf_spec(), "vbox": c18.vbox_spec(), "pvs": c18.pvs_spec()}[entry])
    kind = draw(st.sampled_from(PROLOGS))
    return {
        "entry": entry, "base": base, "prolog": kind, "depth": draw(st.integers(1, 12)), "fanout": draw(st.integers(2, 10)),
        "leaf": draw(st.sampled_from(["lol", "A" * 50, "x", "", "B" * 3000])), "used": draw(st.sampled_from(["text", "attr", "no", "text"])),
        "target": draw(st.sampled_from(["file-canary", "http-local", "relative", "file-canary", "empty"])),
        # filler (comment / processing instruction / white space) in front of the DOCTYPE and inside the internal subset
        "lead": draw(st.sampled_from(LEADS)), "lead_kind": draw(st.sampled_from(["comment", "pi", "space"])),
        "subset_lead": draw(st.sampled_from(LEADS)),
        # an external identifier on a DOCTYPE that also has an internal subset
        "extid": draw(st.sampled_from([None, None, "SYSTEM", "PUBLIC"])),
        "handle": draw(st.sampled_from(["str", "str", "bytes-utf8", "bytes-utf8-bom", "bytes-utf16", "file-text", "file-bytes", "stream-text", "stream-bytes"])),
        # Parallels keeps the previous descriptor as DiskDescriptor.xml.Backup: here the primary is empty or cut short and the
        # generated document is the backup
        "hdd_backup": draw(st.sampled_from([None, None, None, "empty", "cut"])),
        # what the XML declaration of a document handed over as *text* says about its (former) byte encoding: irrelevant for text
        "decl_encoding": draw(st.sampled_from([None, None, None, "ISO-8859-1", "UTF-16", "windows-1252", "US-ASCII"])),
        "alt_ns": draw(st.sampled_from([None, None, None, "http://www.innotek.de/VirtualBox-settings", "urn:example:other"])),
        "trailer": draw(st.sampled_from(["", "", "<!-- trailing comment -->", "<?pi data?>", "\n\n<!-- a --><!-- b -->\n"])),
        "benign_first": draw(st.booleans()),
        "xml11": draw(st.sampled_from([False, False, True])), "doctype_name": draw(st.sampled_from(["root", "Envelope", "x"])),
        "in_thread": draw(st.sampled_from([False, False, False, True])),
        # entity names: plain ones, or case variants of the five predefined names (which are entities like any other)
        "ent_style": draw(st.sampled_from([None, None, None, "predefined-case"])),
    }


def strategy(tier):
    return hostile_spec(tier)


def _filler(kind, n):
    if n <= 0:
        return ""
    if kind == "comment":
        return "<!-- " + "banner ".ljust(n, "=") + " -->\n"
    if kind == "pi":
        return "<?pad " + "x".ljust(n, "y") + "?>\n"
    return " " * (n - 1) + "\n"


def make_prolog(spec, canary):
    """-> (doctype text, name of the entity to reference | None, declares_entity)"""
    doctype, ent, declares = _make_prolog(spec, canary)
    if "[" in doctype:
        if spec.get("subset_lead"):
            doctype = doctype.replace("[\n", "[\n" + _filler("comment" if spec.get("lead_kind") != "pi" else "pi", spec["subset_lead"]), 1)
        if spec.get("extid") and " SYSTEM " not in doctype.split("[", 1)[0]:
            target = _target(spec, canary)
            ext = f'SYSTEM "{target}"' if spec["extid"] == "SYSTEM" else f'PUBLIC "-//X//DTD x//EN" "{target}"'
            doctype = doctype.replace(" [", f" {ext} [", 1)
    if spec.get("ent_style") == "predefined-case":
        names = {f"e{i}": n for i, n in enumerate(["LT", "Amp", "QUOT", "Gt", "APOS", "Lt", "AMP", "Quot", "gT", "Apos", "lT", "aMP", "qUOT", "GT"])}
        names.update({"n": "Quot", "g1": "Gt", "p1": "Amp", "xxe": "LT", "ext": "QUOT", "pic": "Apos"})
        for old, new in sorted(names.items(), key=lambda kv: -len(kv[0])):
            for a, b in ((f"ENTITY {old} ", f"ENTITY {new} "), (f"ENTITY % {old} ", f"ENTITY % {new} "), (f"&{old};", f"&{new};"), (f"%{old};", f"%{new};")):
                doctype = doctype.replace(a, b)
        ent = names.get(ent, ent)
    return _filler(spec.get("lead_kind", "comment"), spec.get("lead", 0)) + doctype, ent, declares


def _target(spec, canary):
    return {"file-canary": "file://" + canary, "http-local": "http://127.0.0.1:9/x.dtd", "relative": "hostile-rel.txt", "empty": ""}[spec["target"]]


def _make_prolog(spec, canary):
    kind = spec["prolog"]
    name = spec["doctype_name"]
    target = _target(spec, canary)
    if kind == "internal-empty":
        return f'<!DOCTYPE {name} [\n  <!ENTITY n "">\n]>', "n", True
    if kind == "param-empty":
        return f'<!DOCTYPE {name} [\n  <!ENTITY % n "">\n  %n;\n]>', None, True
    if kind == "pe-ref-first":
        # a reference to a parameter entity that is declared nowhere, in front of the declarations: a non-validating processor
        # stops reading declarations there (XML 1.0 section 5.1), so the declarations behind it are never reported to the parser's hooks
        return f'<!DOCTYPE {name} [\n  %undeclared;\n  <!ENTITY hidden "yyy">\n]>', "hidden", True
    if kind == "pe-ref-first-external":
        return f'<!DOCTYPE {name} SYSTEM "{target}" [\n  %undeclared;\n  <!ENTITY hidden SYSTEM "{target}">\n]>', "hidden", True
    if kind == "none":
        return "", None, False
    if kind == "dtd-only":
        return f'<!DOCTYPE {name} SYSTEM "{target}">', None, False
    if kind == "subset-no-entity":
        return f"<!DOCTYPE {name} [\n  <!ELEMENT {name} ANY>\n  <!ATTLIST {name} note CDATA #IMPLIED>\n]>", None, False
    if kind in ("internal", "internal-deep"):
        depth = spec["depth"] if kind == "internal-deep" else min(spec["depth"], 3)
        fan = spec["fanout"]
        decls = [f'  <!ENTITY e0 "{spec["leaf"]}">']
        for i in range(1, depth + 1):
            decls.append(f'  <!ENTITY e{i} "{"".join(f"&e{i - 1};" for _ in range(fan))}">')
        return f"<!DOCTYPE {name} [\n" + "\n".join(decls) + "\n]>", f"e{depth}", True
    if kind == "param":
        return (f"<!DOCTYPE {name} [\n  <!ENTITY % p1 \"<!ENTITY g1 'expanded-from-parameter'>\">\n  %p1;\n]>"), "g1", True
    if kind == "external-general":
        return f'<!DOCTYPE {name} [\n  <!ENTITY xxe SYSTEM "{target}">\n]>', "xxe", True
    if kind == "external-param":
        return f'<!DOCTYPE {name} [\n  <!ENTITY % ext SYSTEM "{target}">\n  %ext;\n]>', None, True
    if kind == "ndata":
        return (f'<!DOCTYPE {name} [\n  <!NOTATION gif SYSTEM "image/gif">\n  <!ENTITY pic SYSTEM "{target}" NDATA gif>\n]>'), None, True
    raise ValueError(kind)


MARK = "ENTREFMARK"


def build_document(spec, canary):
    doctype, ent, declares = make_prolog(spec, canary)
    entry = spec["entry"]
    base = spec["base"]
    use = spec["used"] if ent else "no"
    if entry == "hdd":
        files = [f"disk.hdd.{i}.hds" for i in range(base["n"])]
        if use != "no":
            files[0] = MARK + files[0]
        desc = {"disk_size": 2048 * base["n"], "storages": [
            {"start": 2048 * i, "end": 2048 * (i + 1), "images": [{"guid": bhdd.DEFAULT_TOP, "type": "Compressed", "file": f}]}
            for i, f in enumerate(files)], "shots": [{"guid": bhdd.DEFAULT_TOP, "parent": bhdd.NULL_GUID}]}
        text = bhdd.descriptor_xml(desc).replace("<?xml version='1.0' encoding='UTF-8'?>", "<?xml version='1.0' encoding='UTF-8'?>\n" + doctype, 1)
        expected = None
    else:
        b = dict(base)
        if use != "no":
            b = _with_marker(b, use)
        text, expected = c18.document(b, prolog=doctype)
    if ent and use != "no":
        text = text.replace(MARK, f"&{ent};")
        if expected is not None:
            expected = None  # values would contain the expansion; only relevant if the document were accepted
    else:
        text = text.replace(MARK, "")
    if spec.get("alt_ns") and entry == "vbox":
        # a legacy / foreign namespace: still XML that must be refused when hostile; when benign it simply lists no disks
        text = text.replace(bx.VBOX_NS, spec["alt_ns"])
        if expected is not None:
            expected = []
    if spec.get("trailer"):
        text = text.rstrip("\n") + "\n" + spec["trailer"] + "\n"  # comments / PIs after the root element are well-formed
    if spec["xml11"]:
        text = text.replace('<?xml version="1.0"', '<?xml version="1.1"', 1).replace("<?xml version='1.0'", "<?xml version='1.1'", 1)
    return text, declares, expected


def _with_marker(b, use):
    k = b["kind"]
    b = dict(b)
    if k == "ovf":
        b["files"] = [[b["files"][0][0], MARK + b["files"][0][1]]] + [list(f) for f in b["files"][1:]]
        if use == "text" and b["items"]:
            b["items"] = [dict(b["items"][0], name=MARK + b["items"][0]["name"])] + b["items"][1:]
    elif k == "vbox":
        if b["disks"]:
            first = dict(b["disks"][0])
            first["location"] = MARK + (first.get("location") or "x.vdi")
            b["disks"] = [first] + b["disks"][1:]
        else:
            b["dvds"] = [MARK + "a.iso"]
    else:
        devs = [dict(d) for d in b["devices"]] or [{"kind": "Hdd", "system_name": "h.hdd", "first": True}]
        devs[0]["system_name"] = MARK + (devs[0].get("system_name") or "h.hdd")
        b["devices"] = devs
    return b


class _ForwardOnly(io.RawIOBase):
    """A raw stream that can only be read forwards (a pipe, a socket, a member of an archive being streamed)."""

    def __init__(self, data: bytes):
        self._d, self._p = data, 0

    def readable(self):
        return True

    def seekable(self):
        return False

    def readinto(self, b):
        n = min(len(b), len(self._d) - self._p)
        b[:n] = self._d[self._p : self._p + n]
        self._p += n
        return n


def encode(text, handle):
    if handle in ("str", "file-text", "stream-text"):
        return text
    if handle in ("bytes-utf8", "file-bytes", "stream-bytes"):
        return text.encode("utf-8")
    if handle == "bytes-utf8-bom":
        return b"\xef\xbb\xbf" + text.encode("utf-8")
    t = text.replace('encoding="UTF-8"', 'encoding="UTF-16"').replace("encoding='UTF-8'", "encoding='UTF-16'")
    return t.encode("utf-16")


def tree_sig(el):
    return (el.tag, sorted(el.attrib.items()), (el.text or "").strip(), (el.tail or "").strip(), [tree_sig(c) for c in el])


def collect_strings(el):
    out = [el.text or "", el.tail or ""] + list(el.attrib.values())
    for c in el:
        out += collect_strings(c)
    return out


def check(spec) -> Outcome:
    out = Outcome()
    canary = ensure_env()
    text, declares, expected = build_document(spec, canary)
    entry = spec["entry"]
    handle = spec["handle"] if entry != "hdd" else "file"
    out.cls(entry, "prolog-" + spec["prolog"], "handle-" + handle, "declares-entity" if declares else "no-entity")
    out.nontrivial = declares
    if spec.get("decl_encoding") and entry != "hdd" and spec["handle"] == "str":
        text = text.replace('encoding="UTF-8"', f'encoding="{spec["decl_encoding"]}"', 1).replace("encoding='UTF-8'", f"encoding='{spec['decl_encoding']}'", 1)
        out.cls("str-with-foreign-encoding-declaration")
    payload = encode(text, spec["handle"]) if entry != "hdd" else text

    def run():
        if entry == "hdd":
            from dissect.hypervisor.disk.hdd import HDD

            d = tempfile.mkdtemp(prefix="hd-", dir=_STATE["dir"])
            try:
                root = os.path.join(d, "x.hdd")
                os.mkdir(root)
                if spec.get("benign_first"):
                    # the same path first holds a harmless descriptor that is loaded once (a cache keyed on the path must
                    # not let the hostile replacement through)
                    harmless = bhdd.descriptor_xml({"disk_size": 8, "storages": [{"start": 0, "end": 8, "images": [
                        {"guid": bhdd.DEFAULT_TOP, "type": "Plain", "file": "a.hds"}]}], "shots": [{"guid": bhdd.DEFAULT_TOP, "parent": bhdd.NULL_GUID}]})
                    with open(os.path.join(root, "DiskDescriptor.xml"), "w") as f:
                        f.write(harmless)
                    HDD(Path(root))
                data = encode(text, spec["handle"])
                target = "DiskDescriptor.xml"
                if spec.get("hdd_backup") and not spec.get("benign_first"):
                    raw_ = data if isinstance(data, bytes) else data.encode("utf-8")
                    with open(os.path.join(root, "DiskDescriptor.xml"), "wb") as f:
                        f.write(b"" if spec["hdd_backup"] == "empty" else raw_[: len(raw_) // 2])
                    target = "DiskDescriptor.xml.Backup"
                with open(os.path.join(root, target), "wb" if isinstance(data, bytes) else "w") as f:
                    f.write(data)
                h = HDD(Path(root))
                return h.descriptor.xml, [im.file for s in h.descriptor.storage_data.storages for im in s.images]
            finally:
                shutil.rmtree(d, ignore_errors=True)
        if spec["handle"].startswith("file-"):
            # a real file on disk, opened by the caller in text or binary mode (the handle has a .name)
            d = tempfile.mkdtemp(prefix="xf-", dir=_STATE["dir"])
            try:
                pth = os.path.join(d, {"ovf": "vm.ovf", "vbox": "vm.vbox"}.get(entry, "config.pvs"))
                with open(pth, "wb") as f:
                    f.write(payload.encode("utf-8") if isinstance(payload, str) else payload)
                with (open(pth, encoding="utf-8") if spec["handle"] == "file-text" else open(pth, "rb")) as fh:
                    obj = _parse(entry, fh, spec.get("in_thread"))
                    xml = getattr(obj, "xml", None) or getattr(obj, "_xml", None)
                    return xml, list(obj.disks())
            finally:
                shutil.rmtree(d, ignore_errors=True)
        if spec["handle"].startswith("stream-"):
            raw = _ForwardOnly(payload.encode("utf-8") if isinstance(payload, str) else payload)
            fh = io.TextIOWrapper(io.BufferedReader(raw), encoding="utf-8") if spec["handle"] == "stream-text" else io.BufferedReader(raw)
        else:
            fh = io.StringIO(payload) if isinstance(payload, str) else io.BytesIO(payload)
        obj = _parse(entry, fh, spec.get("in_thread"))
        xml = getattr(obj, "xml", None) or getattr(obj, "_xml", None)
        return xml, list(obj.disks())

    _STATE["events"] = []
    _STATE["active"] = True
    tracemalloc.start()
    t0 = time.process_time()
    try:
        res, err = lib(run)
    finally:
        cpu = time.process_time() - t0
        _cur, peak = tracemalloc.get_traced_memory()
        tracemalloc.stop()
        _STATE["active"] = False
    events = list(_STATE["events"])
    size = len(payload)
    tag = f"{entry}|{spec['prolog']}"
    if events:
        out.fail(f"fetch|{entry}|{events[0][0]}", f"parsing touched {events[:3]}")
    if cpu > 2.0:
        out.fail(f"cpu|{entry}", f"parsing a {size}-byte document took {cpu:.1f}s CPU")
    over = max(0, peak - 16 * size)
    out.cls("peak-over-16x-input<" + next((lbl for lim, lbl in ((1 << 16, "64K"), (1 << 17, "128K"), (1 << 18, "256K"), (1 << 19, "512K"), (1 << 20, "1M"), (1 << 21, "2M"), (1 << 23, "8M")) if over < lim), "inf"))
    # (measured on the unchanged tree: no case is more than 256 KiB above 16 x its input size; hostile documents are refused at the
    # first entity declaration, long before anything is expanded)
    if peak > (1 << 20) + 16 * size:
        out.fail(f"memory|{entry}", f"parsing a {size}-byte document allocated {peak} bytes at peak")
    if declares:
        if err is None:
            xml, disks = res
            leaked = xml is not None and any(CANARY_TEXT in s for s in collect_strings(xml))
            out.fail(f"accepted|{entry}|{spec['prolog']}" + ("|leak" if leaked else ""),
                     f"document declaring an entity ({spec['prolog']}, handle {handle}) was accepted; disks={disks[:3]}")
        return out
    if entry == "hdd" and spec.get("hdd_backup") and not spec.get("benign_first"):
        out.cls("hdd-backup-only")
        return out  # the primary descriptor is broken: refusing, or reading a harmless backup, are both fine
    # benign document: must parse as usual
    if err:
        out.fail(err.sig("benign|" + tag), f"document without entity declarations was refused: {err.describe()}")
        return out
    xml, disks = res
    ref = StdET.fromstring(payload)
    if xml is not None and tree_sig(xml) != tree_sig(ref):
        out.fail(f"mismatch|tree|{entry}", "element tree differs from xml.etree's for a benign document")
    if expected is not None and disks != expected:
        out.fail(f"mismatch|disks|{entry}", f"disks {disks} != {expected}")
    return out


def _parse(entry, fh, in_thread=False):
    if in_thread:
        # a caller that parses descriptors in worker threads (thread pools are how collections of VMs get processed)
        import threading

        box = {}

        def work():
            try:
                box["obj"] = _parse(entry, fh)
            except BaseException as e:  # noqa: BLE001 - handed to the calling thread
                box["exc"] = e

        th = threading.Thread(target=work)
        th.start()
        th.join()
        if "exc" in box:
            raise box["exc"]
        return box["obj"]
    if entry == "ovf":
        from dissect.hypervisor.descriptor.ovf import OVF

        return OVF(fh)
    if entry == "vbox":
        from dissect.hypervisor.descriptor.vbox import VBox

        return VBox(fh)
    from dissect.hypervisor.descriptor.pvs import PVS

    return PVS(fh)
