"""C14 — Exposed image metadata and parent references equal what the file stores."""
from __future__ import annotations

import os
import shutil
import tempfile
import uuid
from pathlib import Path

from hypothesis import strategies as st

from hv.builders import hdd as bhdd
from hv.builders import qcow2 as bq
from hv.builders import vdi as bvdi
from hv.builders import vhd as bvhd
from hv.builders import vhdx as bvhdx
from hv.builders import vmdk as bvmdk
from hv.core import DEBUG_LOG_ENV, Outcome, lib
from hv.props import c01, c02, c03, c04, c05, c06

ID = "C14"
RULE = (
    "Hypothesis draws images whose metadata is varied independently of the data: QCOW2 (backing file name 1..1023 UTF-8 bytes, "
    "backing format, data-file name, 0..8 header extensions of known and unknown types with payload lengths covering every "
    "padding residue mod 8 in any order, bitmaps extension, 0..5 snapshots with id/name lengths 0..300 incl. non-ASCII and "
    "extra-data sizes 0/16/24/32/40 with unknown extra bytes), VHDX (two headers with arbitrary sequence numbers in either "
    "slot, the inactive one sometimes invalid; disk id; differencing disks in a temp dir with 1..8 parent-locator UTF-16 "
    "key/value pairs of any length and character set, in any storage layout), VMDK descriptors standalone and embedded "
    "(NUL-padded or exactly filling descriptor_size sectors; attributes, ddb entries, 1..6 extent lines with access modes, file "
    "names with spaces/quotes/unicode and optional start sector), VHD footer/dynamic-header fields, VDI header fields, HDS "
    "header fields, Parallels DiskDescriptor storages/images/snapshots/TopGUID. Oracle: every exposed attribute equals the value "
    "the builder wrote (attribute-by-attribute). Non-trivial = >= 2 variable-length fields non-empty, or >= 2 snapshots / "
    "extensions / locator entries / extents. Every case runs in two process variants: the ambient locale, and the C locale with UTF-8 mode and locale coercion switched off; standalone VMDK descriptors are parsed from text and opened by path."
    ' Backing names of exactly the drawn byte length (1023) or ending exactly with the first cluster; a third process variant runs with debug logging switched on.'
)
ASSUMPTIONS = [
    "QCOW2 backing_format is compared case-insensitively (the reader normalises its case)",
    "descriptor values have no leading/trailing spaces or quotes (stripped by the dictionary syntax itself)",
]

KINDS = ["qcow2", "qcow2", "vhdx", "vhdx-locator", "vmdk-standalone", "vmdk-embedded", "vhd", "vdi", "hds", "hdd"]
TEXT = "abcXYZ019 _-.()äé中\U0001F98A"


def budget(tier):  # per process variant
    return 9000 if tier == "quick" else 45000


VARIANT_DISTINCT_SEEDS = True
REPLAY_ALL_VARIANTS = True  # stored reproductions are re-run under every locale variant


def variants(tier):
    # what the parsers expose must not depend on the process locale / default text encoding
    # ... nor on the package's logging switches
    return [{"name": "default", "env": {}, "shards": 7},
            {"name": "c-locale", "env": {"LC_ALL": "C", "LANG": "C", "PYTHONCOERCECLOCALE": "0", "PYTHONUTF8": "0"}, "shards": 6},
            {"name": "debug-logging", "env": DEBUG_LOG_ENV, "args": {"budget_scale": 0.2}, "shards": 3}]


def scratch_dir():
    root = os.environ.get("VERIF_SCRATCH") or ("/dev/shm" if os.path.isdir("/dev/shm") else None)
    from hv.core import case_dir

    return case_dir("c14", root)


@st.composite
def utf8_name(draw, max_bytes):
    n = draw(st.sampled_from([1, 2, 7, 8, 9, 63, 255, 256, 1023]))
    n = min(n, max_bytes)
    s = draw(st.text(alphabet=TEXT, min_size=1, max_size=max(1, n)))
    while len(s.encode()) > n:
        s = s[:-1]
    if draw(st.booleans()):
        s += "a" * (n - len(s.encode()))  # exactly the drawn number of bytes (1023 is the longest name the format allows)
    return s or "b"


@st.composite
def qcow2_meta_spec(draw, tier):
    cb = draw(st.sampled_from([12, 16, 16, 14, 17, 18, 21]))
    spec = draw(c01.qcow2_spec(tier, size_clusters=draw(st.integers(1, 30)), cluster_bits=cb, allow_backing=False,
                               force={"version": draw(st.sampled_from([2, 3, 3])), "data_file": False}))
    cs = 1 << cb
    room = cs - 112 - 16
    exts = []
    for _ in range(draw(st.integers(0, 8))):
        ln = draw(st.sampled_from([0, 1, 2, 3, 4, 5, 6, 7, 8, 9, 15, 16, 24, 40]))
        if cb >= 17 and draw(st.integers(0, 3)) == 0:
            # the length field is 32 bits wide: an extension longer than 64 KiB in front of further ones (large clusters only)
            ln = draw(st.sampled_from([65528, 65529, 65535, 65536, 65537, 70000, 100001]))
        magic = draw(st.sampled_from([0x6803F857, 0x12345678, 0xCAFED00D, 0x23852875, 0x0BADF00D]))
        if magic == 0x6803F857 and any(e[0] == magic for e in exts):
            magic = 0x12345678
        if magic == 0x23852875:
            if any(e[0] == magic for e in exts):
                magic = 0xCAFED00D
            else:
                ln = 24
        if room >= ln + 16:
            exts.append([magic, bytes((i * 13 + ln + 1) & 0xFF for i in range(ln)).hex()])
            room -= ln + 16
    spec["extensions"] = exts
    spec["ext_order"] = draw(st.sampled_from(["before", "after"]))
    # how the extension area ends: with the end marker, or without one — right where the backing file name starts, or with the
    # first cluster (an unknown extension pads it out to the last byte; small clusters only)
    spec["ext_end"] = draw(st.sampled_from(["marker", "marker", "none", "fill-cluster"]))
    if spec["ext_end"] == "fill-cluster" and cb > 16:
        spec["ext_end"] = "marker"
    if draw(st.booleans()):
        name = draw(utf8_name(min(1023, room - 32)))
        fmt = draw(st.sampled_from([None, "raw", "qcow2", "vmdk"]))
        spec["backing"] = {"name": name, "format": fmt, "length": spec["size"]}
        spec["backing_mode"] = "object"
        spec["backing_name_gap"] = draw(st.sampled_from([0, 0, 1]))
        spec["backing_name_at_end"] = draw(st.sampled_from([False, False, True]))  # the name ends with the first cluster
    if spec["version"] == 3 and draw(st.integers(0, 3)) == 0:
        spec["data_file"] = True
        spec["data_file_name"] = draw(st.sampled_from(["data.raw", "d", "ext-" + "x" * 20]))
        spec["clusters"] = [c for c in spec["clusters"] if c[1] != "c"]
    snaps = []
    for i in range(draw(st.sampled_from([0, 0, 1, 2, 3, 5]))):
        idl = draw(st.sampled_from([0, 1, 2, 5, 8, 300]))
        nml = draw(st.sampled_from([0, 1, 3, 7, 16, 300]))
        es = draw(st.sampled_from([0, 16, 24, 32, 40, 28, 29, 33]))
        snaps.append({
            "id": (draw(st.text(alphabet=TEXT, min_size=min(idl, 1), max_size=max(1, min(idl, 6)))) * idl)[:idl] if idl else "",
            "name": (draw(st.text(alphabet=TEXT, min_size=min(nml, 1), max_size=max(1, min(nml, 6)))) * nml)[:nml] if nml else "",
            "extra_size": es, "unknown_extra": bytes(range(1, es - 24 + 1)).hex() if es > 24 else "", "clusters": [], "share_active": True,
            "date_sec": draw(st.integers(0, 2**32 - 1)), "vm_clock_nsec": draw(st.integers(0, 2**63)), "disk_size": draw(st.integers(0, 2**62)),
            "vm_state_size_large": draw(st.integers(0, 2**40)), "icount": draw(st.integers(0, 2**64 - 1)),
        })
    spec["snapshots"] = snaps
    spec["far_base"] = min(spec["far_base"], 1 << 40)
    spec["comp_far"] = 0
    return {"kind": "qcow2", "image": spec}


@st.composite
def locator_entries(draw):
    n = draw(st.integers(0, 7))
    keys = draw(st.lists(st.text(alphabet=TEXT + "\\:", min_size=1, max_size=20), min_size=n, max_size=n, unique=True))
    out = []
    for k in keys:
        if k in ("relative_path", "absolute_win32_path"):
            k += "_"
        vl = draw(st.sampled_from([0, 1, 5, 40, 260, 2000]))
        v = (draw(st.text(alphabet=TEXT + "\\:", min_size=min(vl, 1), max_size=max(1, min(vl, 8)))) * vl)[:vl] if vl else ""
        # keys and values are UTF-16-LE whatever they start with (U+FEFF / U+FFFE are ordinary characters here, not byte-order marks)
        mark = draw(st.sampled_from([None, None, None, None, "\ufeff", "\ufffe"]))
        if mark:
            if draw(st.booleans()):
                v = mark + v
            else:
                k = mark + k
        out.append([k, v])
    return out


@st.composite
def strategy_(draw, tier):
    kind = draw(st.sampled_from(KINDS))
    if kind == "qcow2":
        return draw(qcow2_meta_spec(tier))
    if kind in ("vhdx", "vhdx-locator"):
        im = draw(c03.vhdx_spec(tier))
        im["blocks"] = [b for b in im["blocks"] if b[2] < 64][:4]
        im["disk_id"] = draw(st.binary(min_size=16, max_size=16)).hex()
        im["physical_sector_size"] = draw(st.sampled_from([512, 4096]))
        spec = {"kind": kind, "image": im}
        if kind == "vhdx-locator":
            im["has_parent"] = True
            im["blocks"] = []
            im["meta_order"] = draw(st.permutations(list(range(6))))
            ents = draw(locator_entries())
            pos = draw(st.integers(0, len(ents)))
            ents.insert(pos, ["relative_path", draw(st.sampled_from([".\\parent.vhdx", "parent.vhdx"]))])
            if draw(st.booleans()):
                ents.append(["absolute_win32_path", "C:\\Users\\ü\\parent.vhdx"])
            im["locator"] = ents
            im["locator_layout"] = draw(st.sampled_from(["interleaved", "keys-first", "padded", "reversed"]))
        return spec
    if kind in ("vmdk-standalone", "vmdk-embedded"):
        n = draw(st.integers(1, 6))
        exts = []
        for j in range(n):
            t = draw(st.sampled_from(["SPARSE", "FLAT", "VMFS", "VMFSSPARSE", "SESPARSE"]))
            exts.append({"access": draw(st.sampled_from(["RW", "RDONLY", "NOACCESS"])), "sectors": draw(st.integers(0, 2**40)), "type": t,
                         "file": draw(st.sampled_from(["disk-s001.vmdk", "disk with spaces.vmdk", "dïsk 🦊.vmdk", 'a "quoted" name.vmdk', "d'(1).vmdk",
                                                     "Windows 10 #2-s001.vmdk", "#scratch.vmdk", "line\u2028sep.vmdk", "form\x0cfeed\x0bvt.vmdk", "fs\x1cnel\x85.vmdk", "cafe\u0301-\u212b.vmdk"])) ,
                         "offset": draw(st.sampled_from([None, 0, 123])) if t in ("FLAT", "VMFS", "SPARSE") else None})
        d = {"cid": "%08x" % draw(st.integers(0, 2**32 - 1)), "parent_cid": "ffffffff", "create_type": draw(st.sampled_from(["monolithicSparse", "vmfs", "twoGbMaxExtentFlat", "seSparse"])),
             "extents": exts, "crlf": draw(st.booleans()), "comments": draw(st.booleans()),
             "ddb": dict(draw(st.lists(st.tuples(st.sampled_from(["ddb.adapterType", "ddb.geometry.cylinders", "ddb.uuid", "ddb.virtualHWVersion", "ddb.longContentID", "ddb.toolsVersion"]),
                                                 st.sampled_from(["lsilogic", "1024", "60 00 C2 9a", "", "a = b", "x y z", "build #7 (test)", "# not a comment", "a\u2029b", "x\x1ey"])), max_size=5, unique_by=lambda x: x[0]))),
             "extra_attr": dict(draw(st.lists(st.tuples(st.sampled_from(["isNativeSnapshot", "changeTrackPath", "custom.key"]), st.sampled_from(["no", "disk-ctk.vmdk", "v=1"])), max_size=2, unique_by=lambda x: x[0]))),
             "encoding": draw(st.sampled_from([None, "UTF-8", "windows-1252"]))}
        spec = {"kind": kind, "desc": d}
        if kind == "vmdk-standalone":
            spec["by_path"] = draw(st.sampled_from([None, "path", "str"]))
        if kind == "vmdk-embedded":
            e = draw(c02.extent_spec(tier, kind="kdmv", capacity=draw(st.integers(1, 2000)), allow_compressed=False))
            e.pop("descriptor", None)
            spec["extent"] = e
            spec["fill"] = draw(st.sampled_from(["pad", "pad", "exact", "exact-minus-1"]))
            spec["desc_gap"] = draw(st.sampled_from([0, 0, 3]))
            spec["big_ddb"] = 19000 if draw(st.integers(0, 39)) == 0 else 0
        return spec
    if kind == "vhd":
        im = draw(c04.vhd_spec(tier))
        im["timestamp"] = draw(st.integers(0, 2**32 - 1))
        im["geometry"] = draw(st.integers(0, 2**32 - 1))
        im["original_size"] = draw(st.integers(0, 2**40))
        return {"kind": "vhd", "image": im}
    if kind == "vdi":
        im = draw(c05.vdi_spec(tier))
        im["image_type"] = draw(st.sampled_from([1, 2, 3, 4]))
        im["description"] = draw(st.text(alphabet="abc XYZ019", max_size=40))
        return {"kind": "vdi", "image": im}
    if kind == "hds":
        im = draw(c06.hds_spec(tier))[0]
        if im["version"] == 2 and draw(st.integers(0, 2)) == 0:
            # a 64-bit size: 2 TiB and more (32 MiB clusters keep the BAT small)
            cs = 1 << 16
            ncl = draw(st.sampled_from([1 << 16, (1 << 16) + 1, 70000, 1 << 17]))
            im = {"version": 2, "cluster_sectors": cs, "size_sectors": ncl * cs - draw(st.sampled_from([0, 1, cs - 1])), "bat_entries": ncl,
                  "first_block_offset": cs * 5, "in_use": draw(st.booleans()), "alloc": [[0, cs * 5], [ncl - 1, cs * 6]], "layer": 0}
        return {"kind": "hds", "image": im}
    # hdd descriptor
    nst = draw(st.integers(1, 5))
    guids = [str(uuid.UUID(int=draw(st.integers(1, 2**128 - 1)))) for _ in range(draw(st.integers(1, 4)))]
    sts = []
    start = 0
    for s in range(nst):
        n = draw(st.integers(1, 1 << 30))
        sts.append({"start": start, "end": start + n, "blocksize": 2048, "images": [
            {"guid": g, "type": draw(st.sampled_from(["Compressed", "Plain"])), "file": draw(st.sampled_from([f"d.hdd.{s}.{{{g}}}.hds", f"/abs/päth/x {s}.hds", f"a&b<{s}>.hds",
                                                                                                        f"cafe\u0301 {s}.hds", f"\u212bngstro\u0308m-\u1112\u1161\u11ab {s}.hds"]))} for g in guids]})  # incl. names that are not NFC-normalised
        start += n
    shots = [{"guid": g, "parent": guids[i - 1] if i else bhdd.NULL_GUID} for i, g in enumerate(guids)]
    return {"kind": "hdd", "desc": {"disk_size": start, "storages": sts, "shots": shots, "top_guid": draw(st.sampled_from([None, guids[-1], guids[0]])),
                                    "shuffle": list(draw(st.permutations(list(range(nst)))))}}


def strategy(tier):
    return strategy_(tier)


def eq(out, tag, name, got, exp):
    if got != exp:
        out.fail(f"mismatch|{tag}|{name}", f"{name}: exposed {str(got)[:120]!r} != stored {str(exp)[:120]!r}")


def check(spec) -> Outcome:
    out = Outcome()
    kind = spec["kind"]
    out.cls(kind)
    getattr(Checks, kind.replace("-", "_"))(spec, out)
    return out


class Checks:
    @staticmethod
    def qcow2(spec, out):
        im = spec["image"]
        built = bq.build(im)
        fh, dfh, bfh, layers, meta = built
        q, err = c01.open_image(im, built)
        if err:
            out.fail(err.sig("qcow2-open"), f"QCow2() raised {err.describe()}")
            return
        t = "qcow2"
        eq(out, t, "size", q.size, meta["size"])
        eq(out, t, "cluster_size", q.cluster_size, meta["cluster_size"])
        eq(out, t, "header.version", q.header.version, meta["version"])
        eq(out, t, "header.l1_size", q.header.l1_size, meta["l1_size"])
        eq(out, t, "header.l1_table_offset", q.header.l1_table_offset, meta["l1_table_offset"])
        eq(out, t, "header.nb_snapshots", q.header.nb_snapshots, len(meta["snapshots"]))
        eq(out, t, "auto_backing_file", q.auto_backing_file, meta["backing_name"])
        bf = q.backing_format
        eq(out, t, "backing_format", bf.lower() if isinstance(bf, str) else bf, meta["backing_format"])
        eq(out, t, "image_data_file", q.image_data_file, meta["data_file_name"])
        exts = meta["extensions"]
        ft = [p for m, p in exts if m == 0x6803F857]
        eq(out, t, "feature_table", q.feature_table, ft[0] if ft else None)
        unk = [(m, p) for m, p in exts if m not in (0x6803F857, 0x23852875)]
        got_unk, err = lib(lambda: [(e.magic, bytes(p)) for e, p in q.unknown_extensions])
        if err:
            out.fail(err.sig("qcow2-unknown-ext"), err.describe())
        else:
            eq(out, t, "unknown_extensions", got_unk, unk)
        bm = [p for m, p in exts if m == 0x23852875]
        if bm:
            import struct

            nb, _r, dsz, doff = struct.unpack(">IIQQ", bm[0])
            bh = q.bitmap_header
            eq(out, t, "bitmap_header", None if bh is None else (bh.nb_bitmaps, bh.bitmap_directory_size, bh.bitmap_directory_offset), (nb, dsz, doff))
        else:
            eq(out, t, "bitmap_header", q.bitmap_header, None)
        snaps, err = lib(lambda: list(q.snapshots))
        if err:
            out.fail(err.sig("qcow2-snapshots"), f"snapshots raised {err.describe()}")
            return
        eq(out, t, "len(snapshots)", len(snaps), len(meta["snapshots"]))
        for i, (s, m) in enumerate(zip(snaps, meta["snapshots"])):
            eq(out, t, "snapshot.id_str", s.id_str, m["id"])
            eq(out, t, "snapshot.name", s.name, m["name"])
            eq(out, t, "snapshot.l1_size", s.header.l1_size, m["l1_size"])
            eq(out, t, "snapshot.l1_table_offset", s.header.l1_table_offset, m["l1_table_offset"])
            eq(out, t, "snapshot.date_sec", s.header.date_sec, m["date_sec"])
            eq(out, t, "snapshot.vm_clock_nsec", s.header.vm_clock_nsec, m["vm_clock_nsec"])
            eq(out, t, "snapshot.extra_data_size", s.header.extra_data_size, m["extra_size"])
            eq(out, t, "snapshot.extra.disk_size", s.extra.disk_size, m["disk_size"])
            eq(out, t, "snapshot.extra.vm_state_size_large", s.extra.vm_state_size_large, m["vm_state_size_large"])
            eq(out, t, "snapshot.extra.icount", s.extra.icount, m["icount"])
            eq(out, t, "snapshot.unknown_extra", s.unknown_extra, m["unknown_extra"])
            if len(out.failures) > 2:
                break
        # opening snapshot views must leave what the active object reports untouched (the views share objects with it)
        for s_ in snaps:
            _view, err = lib(s_.open)
            if err:
                out.fail(err.sig("qcow2-snapshot-open"), f"snapshot.open() raised {err.describe()}")
                break
        if snaps and not out.failures:
            eq(out, t, "size (after snapshot.open)", q.size, meta["size"])
            eq(out, t, "header.size (after snapshot.open)", q.header.size, meta["size"])
            eq(out, t, "header.l1_size (after snapshot.open)", q.header.l1_size, meta["l1_size"])
            eq(out, t, "header.l1_table_offset (after snapshot.open)", q.header.l1_table_offset, meta["l1_table_offset"])
            eq(out, t, "header.nb_snapshots (after snapshot.open)", q.header.nb_snapshots, len(meta["snapshots"]))
        nvar = sum(1 for x in (meta["backing_name"], meta["backing_format"], meta["data_file_name"]) if x)
        out.nontrivial = nvar >= 2 or len(exts) >= 2 or len(meta["snapshots"]) >= 2
        out.cls(f"exts={min(len(exts), 4)}", f"snaps={min(len(meta['snapshots']), 3)}")

    @staticmethod
    def vhdx(spec, out):
        from dissect.hypervisor.disk.vhdx import VHDX

        fh, lay, meta = bvhdx.build(spec["image"])
        v, err = lib(VHDX, fh)
        if err:
            out.fail(err.sig("vhdx-open"), f"VHDX() raised {err.describe()}")
            return
        Checks._vhdx_common(v, meta, out)
        out.nontrivial = True

    @staticmethod
    def _vhdx_common(v, meta, out):
        t = "vhdx"
        eq(out, t, "size", v.size, meta["size"])
        eq(out, t, "block_size", v.block_size, meta["block_size"])
        eq(out, t, "sector_size", v.sector_size, meta["sector_size"])
        eq(out, t, "id", v.id, meta["id"])
        eq(out, t, "has_parent", bool(v.has_parent), meta["has_parent"])
        eq(out, t, "header.sequence_number", v.header.sequence_number, meta["header_seq"])
        eq(out, t, "header.file_write_guid", bytes(v.header.file_write_guid), meta["header_write_guid"])

    @staticmethod
    def vhdx_locator(spec, out):
        from dissect.hypervisor.disk.vhdx import VHDX

        im = spec["image"]
        d = scratch_dir()
        try:
            parent = dict(im, has_parent=False, locator=[], blocks=[], meta_order=[0, 1, 2, 3, 4])
            pfh, _l, _m = bvhdx.build(parent)
            pfh.write_to(os.path.join(d, "parent.vhdx"))
            fh, lay, meta = bvhdx.build(dict(im, name=os.path.join(d, "child.vhdx")))
            v, err = lib(VHDX, fh)
            if err:
                out.fail(err.sig("vhdx-locator-open"), f"VHDX(differencing) raised {err.describe()}")
                return
            try:
                Checks._vhdx_common(v, meta, out)
                ploc = getattr(v, "parent_locator", None)
                eq(out, "vhdx", "parent_locator.entries", dict(ploc.entries) if ploc is not None else None, dict(im["locator"]))
                out.nontrivial = len(im["locator"]) >= 2
                out.cls(f"locator={min(len(im['locator']), 4)}", "layout-" + im.get("locator_layout", "interleaved"))
            finally:
                if getattr(v, "parent", None) is not None:
                    v.parent.fh.close()
        finally:
            shutil.rmtree(d, ignore_errors=True)

    @staticmethod
    def _vmdk_desc_check(dsc, d, out, t):
        attr = {"version": "1", "CID": d["cid"], "parentCID": d["parent_cid"], "createType": d["create_type"]}
        if d.get("encoding"):
            attr["encoding"] = d["encoding"]
        attr.update(d.get("extra_attr") or {})
        eq(out, t, "descriptor.attr", dict(dsc.attr), attr)
        eq(out, t, "descriptor.ddb", dict(dsc.ddb), dict(d.get("ddb") or {}))
        eq(out, t, "descriptor.sectors", dsc.sectors, sum(e["sectors"] for e in d["extents"]))
        got = [(e.access_mode, e.sectors, e.type, e.filename, e.start_sector) for e in dsc.extents]
        exp = [(e["access"], e["sectors"], e["type"], e["file"], e.get("offset")) for e in d["extents"]]
        # a start sector of 0 is stored as "0"; the dataclass keeps falsy values as parsed (None or '0'/0)
        norm = lambda rows: [(a, s, ty, f, (int(o) if o not in (None, "") else None)) for a, s, ty, f, o in rows]  # noqa: E731
        eq(out, t, "descriptor.extents", norm(got), norm(exp))

    @staticmethod
    def vmdk_standalone(spec, out):
        from dissect.hypervisor.disk.vmdk import DiskDescriptor

        text = bvmdk.descriptor_text(spec["desc"])
        dsc, err = lib(DiskDescriptor.parse, text)
        if err:
            out.fail(err.sig("vmdk-descriptor-parse"), f"DiskDescriptor.parse raised {err.describe()}")
            return
        Checks._vmdk_desc_check(dsc, spec["desc"], out, "vmdk-standalone")
        out.nontrivial = len(spec["desc"]["extents"]) >= 2
        out.cls(f"extents={min(len(spec['desc']['extents']), 4)}")
        if spec.get("by_path") and not out.failures:
            # the same descriptor (its extent lines left out: their files do not exist) opened as a file on disk, by path
            from dissect.hypervisor.disk.vmdk import VMDK

            d_ = dict(spec["desc"], extents=[])
            dd = scratch_dir()
            try:
                pth = os.path.join(dd, "descriptor.vmdk")
                with open(pth, "w", encoding="utf-8", newline="") as f:
                    f.write(bvmdk.descriptor_text(d_))
                v, err = lib(VMDK, Path(pth) if spec["by_path"] == "path" else pth)
                if err:
                    out.fail(err.sig("vmdk-descriptor-by-path"), f"VMDK(descriptor path) raised {err.describe()}")
                else:
                    Checks._vmdk_desc_check(v.descriptor, d_, out, "vmdk-by-path")
                    out.cls("vmdk-by-path")
            finally:
                shutil.rmtree(dd, ignore_errors=True)

    @staticmethod
    def vmdk_embedded(spec, out):
        from dissect.hypervisor.disk.vmdk import VMDK

        d = dict(spec["desc"])
        if spec.get("big_ddb"):
            # a descriptor longer than 1 MiB (tens of thousands of ddb lines): every line of it is part of what the file stores
            d["ddb"] = dict(d.get("ddb") or {}, **{f"ddb.custom.entry{i:05d}": f"value number {i} of a long list" for i in range(spec["big_ddb"])})
            out.cls("descriptor>1MiB")
        text = bvmdk.descriptor_text(d)
        fill = spec["fill"]
        raw = text.encode()
        if fill in ("exact", "exact-minus-1"):
            target = -(-len(raw) // 512) * 512 - (1 if fill == "exact-minus-1" else 0)
            nl = "\r\n" if d.get("crlf") else "\n"
            pad = target - len(raw)
            # pad with a trailing comment line so that the text fills the descriptor area exactly
            if pad >= len(nl) + 1:
                text = text + "#" + "x" * (pad - len(nl) - 1) + nl
            elif pad > 0:
                text = text + " " * pad
            raw = text.encode()
        e = dict(spec["extent"], descriptor=text, desc_gap=spec["desc_gap"], desc_sectors=-(-len(raw) // 512) if fill != "pad" else 20 + len(raw) // 512)
        fh, lay, meta = bvmdk.build(e)
        v, err = lib(VMDK, fh)
        if err:
            out.fail(err.sig("vmdk-embedded-open"), f"VMDK(embedded descriptor, fill={fill}) raised {err.describe()}")
            return
        dsc = v.disks[0].descriptor
        if dsc is None:
            out.fail("mismatch|vmdk-embedded|descriptor", "embedded descriptor not exposed")
            return
        Checks._vmdk_desc_check(dsc, d, out, "vmdk-embedded")
        out.nontrivial = len(d["extents"]) >= 2
        out.cls("fill-" + fill)

    @staticmethod
    def vhd(spec, out):
        from dissect.hypervisor.disk.vhd import VHD

        fh, lay, meta = bvhd.build(spec["image"])
        v, err = lib(VHD, fh)
        if err:
            out.fail(err.sig("vhd-open"), f"VHD() raised {err.describe()}")
            return
        t = "vhd"
        eq(out, t, "size", v.size, meta["size"])
        f = v.disk.footer
        for k, exp in meta["footer"].items():
            got = getattr(f, k)
            eq(out, t, "footer." + k, bytes(got) if isinstance(exp, bytes) else got, exp)
        if "header" in meta:
            h = v.disk.header
            for k, exp in meta["header"].items():
                got = getattr(h, k)
                eq(out, t, "header." + k, bytes(got) if isinstance(exp, bytes) else got, exp)
        out.nontrivial = True

    @staticmethod
    def vdi(spec, out):
        from dissect.hypervisor.disk.vdi import VDI

        im = spec["image"]
        fh, lay, meta = bvdi.build(im)
        v, err = lib(VDI, fh)
        if err:
            out.fail(err.sig("vdi-open"), f"VDI() raised {err.describe()}")
            return
        t = "vdi"
        eq(out, t, "size", v.size, meta["size"])
        eq(out, t, "block_size", v.block_size, meta["block_size"])
        eq(out, t, "sector_size", v.sector_size, 512)
        eq(out, t, "data_offset", v.data_offset, meta["data_offset"])
        eq(out, t, "header.BlocksOffset", v.header.BlocksOffset, meta["BlocksOffset"])
        eq(out, t, "header.BlocksInHDD", v.header.BlocksInHDD, meta["BlocksInHDD"])
        eq(out, t, "header.BlocksAllocated", v.header.BlocksAllocated, meta["BlocksAllocated"])
        eq(out, t, "header.ImageType", int(v.header.ImageType), im.get("image_type", 1))
        eq(out, t, "header.ImageDescription", bytes(v.header.ImageDescription).rstrip(b"\x00"), im.get("description", "").encode())
        out.nontrivial = bool(im.get("description"))

    @staticmethod
    def hds(spec, out):
        from dissect.hypervisor.disk.hdd import HDS

        fh, lay, meta = bhdd.build(spec["image"])
        v, err = lib(HDS, fh)
        if err:
            out.fail(err.sig("hds-open"), f"HDS() raised {err.describe()}")
            return
        t = "hds"
        eq(out, t, "size", v.size, meta["size"])
        eq(out, t, "cluster_size", v.cluster_size, meta["cluster_size"])
        eq(out, t, "data_offset", v.data_offset, meta["data_offset"])
        eq(out, t, "in_use", v.in_use, meta["in_use"])
        out.nontrivial = True

    @staticmethod
    def hdd(spec, out):
        from dissect.hypervisor.disk.hdd import HDD

        desc = spec["desc"]
        d = scratch_dir()
        try:
            root = os.path.join(d, "x.hdd")
            os.mkdir(root)
            with open(os.path.join(root, "DiskDescriptor.xml"), "w", encoding="utf-8") as f:
                f.write(bhdd.descriptor_xml(desc))
            h, err = lib(HDD, Path(root))
            if err:
                out.fail(err.sig("hdd-open"), f"HDD() raised {err.describe()}")
                return
            t = "hdd"
            order = desc.get("shuffle") or list(range(len(desc["storages"])))
            got = [(s.start, s.end, [(str(i.guid), i.type, i.file) for i in s.images]) for s in h.descriptor.storage_data.storages]
            exp = [(desc["storages"][i]["start"], desc["storages"][i]["end"], [(im["guid"], im["type"], im["file"]) for im in desc["storages"][i]["images"]]) for i in order]
            eq(out, t, "storages", got, exp)
            eq(out, t, "shots", [(str(s.guid), str(s.parent)) for s in h.descriptor.snapshots.shots], [(s["guid"], s["parent"]) for s in desc["shots"]])
            tg = h.descriptor.snapshots.top_guid
            eq(out, t, "top_guid", None if tg is None else str(tg), desc.get("top_guid"))
            # lookups by GUID answer from this descriptor (many descriptors are parsed in one process)
            import uuid as _uuid

            parent_of = {s_["guid"]: s_["parent"] for s_ in desc["shots"]}
            for g in parent_of if len(parent_of) == len(desc["shots"]) else []:  # (duplicate GUIDs: lookups are ambiguous)
                shot, err = lib(h.descriptor.snapshots.find_shot, _uuid.UUID(g))
                if err:
                    out.fail(err.sig("hdd-find-shot"), f"find_shot({g}) raised {err.describe()}")
                    break
                eq(out, t, "find_shot", (str(shot.guid), str(shot.parent)), (g, parent_of[g]))
                chain, err = lib(h.descriptor.get_snapshot_chain, _uuid.UUID(g))
                if err:
                    out.fail(err.sig("hdd-chain"), f"get_snapshot_chain({g}) raised {err.describe()}")
                    break
                exp_chain, cur = [], g
                while cur != bhdd.NULL_GUID:
                    exp_chain.append(cur)
                    cur = parent_of[cur]
                eq(out, t, "snapshot_chain", [str(c) for c in chain], exp_chain)
            out.nontrivial = len(desc["storages"]) >= 2 or len(desc["shots"]) >= 2
        finally:
            shutil.rmtree(d, ignore_errors=True)
