"""Independent VHDX writer from [MS-VHDX] (struct only; GUID constants are those of the specification).

spec = {
  "block_size": int (2^20..2^28), "sector_size": 512|4096, "size": int (multiple of sector_size),
  "seq": [s1, s2] header sequence numbers (current = larger), "bad_other_header": bool (lower copy has a bad signature),
  "regions": {"metadata": MiB offset, "bat": MiB offset}, "region_order": "mb"|"bm", "meta_order": permutation of item indices,
  "meta_gap": int, "meta_tail": bool (last item flush with the end of the region), "blocks": [[block, state, file_offset_mb], ...]     (states 0,1,2,3,6,7; others default 0)
  differencing: "has_parent": bool, "locator": [[key, value], ...], "locator_type": guid str (optional),
                "sb": [[chunk, file_offset_mb], ...], "partial": {"<block>": [[first_sector, count], ...]}  present runs
  "layer": int, "disk_id": 16-byte hex
}
"""
from __future__ import annotations

import functools
import struct
import uuid

from hv.sparse import Extents, Lit, Pat, Provider, SparseFile, Zero

MB = 1 << 20
KB64 = 64 * 1024

GUID_BAT = uuid.UUID("2DC27766-F623-4200-9D64-115E9BFD4A08")
GUID_METADATA = uuid.UUID("8B7CA206-4790-4B9A-B8FE-575F050F886E")
GUID_FILE_PARAMETERS = uuid.UUID("CAA16737-FA36-4D43-B3B6-33F0AA44E76B")
GUID_VIRTUAL_DISK_SIZE = uuid.UUID("2FA54224-CD1B-4876-B211-5DBED83BF4B8")
GUID_VIRTUAL_DISK_ID = uuid.UUID("BECA12AB-B2E6-4523-93EF-C309E000C746")
GUID_LOGICAL_SECTOR_SIZE = uuid.UUID("8141BF1D-A96F-4709-BA47-F233A8FAAB5F")
GUID_PHYSICAL_SECTOR_SIZE = uuid.UUID("CDA348C7-445D-4471-9CC9-E9885251C556")
GUID_PARENT_LOCATOR = uuid.UUID("A8D35F2D-B30B-454D-ABF7-D3D84834AB0C")
GUID_VHDX_LOCATOR_TYPE = uuid.UUID("B04AEFB7-D19E-4A81-B789-25B8E9445913")

PB_NOT_PRESENT, PB_UNDEFINED, PB_ZERO, PB_UNMAPPED, PB_FULLY_PRESENT, PB_PARTIALLY_PRESENT = 0, 1, 2, 3, 6, 7

_CRC_TABLE = None


@functools.lru_cache(maxsize=128)
def crc32c(data: bytes) -> int:
    global _CRC_TABLE
    if _CRC_TABLE is None:
        t = []
        for i in range(256):
            c = i
            for _ in range(8):
                c = (c >> 1) ^ 0x82F63B78 if c & 1 else c >> 1
            t.append(c)
        _CRC_TABLE = t
    t = _CRC_TABLE
    c = 0xFFFFFFFF
    for b in data.rstrip(b"\x00"):
        c = t[(c ^ b) & 0xFF] ^ (c >> 8)
    # trailing zeros
    for _ in range(len(data) - len(data.rstrip(b"\x00"))):
        c = t[c & 0xFF] ^ (c >> 8)
    return c ^ 0xFFFFFFFF


def key_for(layer: int, block: int) -> int:
    return (0xD8 << 52) | (layer << 36) | (block + 1)


def header_bytes(seq: int, wguid: bytes, good: bool = True, log_offset: int = MB, log_length: int = MB, log_guid: bytes = bytes(16)) -> bytes:
    sig = b"head" if good else b"hea\x00"
    body = struct.pack("<4sIQ16s16s16sHHIQ", sig, 0, seq, wguid, bytes([0xDA]) * 16, log_guid, 0, 1, log_length, log_offset)
    raw = body.ljust(4096, b"\x00")
    crc = crc32c(raw)
    return raw[:4] + struct.pack("<I", crc) + raw[8:]


def region_table_bytes(entries) -> bytes:
    """entries: (guid, file offset, length[, required]); `required` defaults to 1"""
    body = b"".join(struct.pack("<16sQII", e[0].bytes_le, e[1], e[2], e[3] if len(e) > 3 else 1) for e in entries)
    raw = (struct.pack("<4sII4s", b"regi", 0, len(entries), bytes(4)) + body).ljust(KB64, b"\x00")
    crc = crc32c(raw)
    return raw[:4] + struct.pack("<I", crc) + raw[8:]


def locator_bytes(entries, locator_type: uuid.UUID, layout: str = "interleaved") -> bytes:
    """Parent locator item.  `layout` only changes where the UTF-16 strings are stored (the entry table points at them):
    interleaved k1 v1 k2 v2 ..., keys-first k1 k2 .. v1 v2 .., padded (each string 8-byte aligned), reversed."""
    hdr = struct.pack("<16sHH", locator_type.bytes_le, 0, len(entries))
    tab_len = 20 + 12 * len(entries)
    enc = [(k.encode("utf-16-le"), v.encode("utf-16-le")) for k, v in entries]
    pieces = []  # (entry index, 'k'|'v', bytes)
    if layout == "keys-first":
        pieces = [(i, "k", kb) for i, (kb, _v) in enumerate(enc)] + [(i, "v", vb) for i, (_k, vb) in enumerate(enc)]
    else:
        for i, (kb, vb) in enumerate(enc):
            pieces += [(i, "k", kb), (i, "v", vb)]
        if layout == "reversed":
            pieces.reverse()
    data = b""
    where = {}
    for i, kind, bts in pieces:
        if layout == "padded":
            data += bytes(-len(data) % 8)
        where[(i, kind)] = tab_len + len(data)
        data += bts
    tab = b""
    for i, (kb, vb) in enumerate(enc):
        tab += struct.pack("<IIHH", where[(i, "k")], where[(i, "v")], len(kb), len(vb))
    return hdr + tab + data


class Bits(Provider):
    """Bitmap of `length` bytes, LSB-first, bits set for the given (start_bit, nbits) runs."""

    def __init__(self, length: int, runs):
        self.length = length
        self.runs = sorted(runs)

    def read(self, off, n):
        buf = bytearray(n)
        lo, hi = off * 8, (off + n) * 8
        for s, c in self.runs:
            a, b = max(s, lo), min(s + c, hi)
            if a >= b:
                continue
            a -= lo
            b -= lo
            while a < b and a % 8:
                buf[a // 8] |= 1 << (a % 8)
                a += 1
            full = (b - a) // 8
            if full:
                buf[a // 8 : a // 8 + full] = b"\xff" * full
                a += full * 8
            while a < b:
                buf[a // 8] |= 1 << (a % 8)
                a += 1
        return bytes(buf)


def geometry(spec):
    bs, ss, size = spec["block_size"], spec["sector_size"], spec["size"]
    spb = bs // ss
    chunk_ratio = ((1 << 23) * ss) // bs
    pb_count = (size + bs - 1) // bs
    sb_count = (pb_count + chunk_ratio - 1) // chunk_ratio
    if spec.get("has_parent"):
        entries = sb_count * (chunk_ratio + 1)
    else:
        entries = pb_count + (pb_count - 1) // chunk_ratio
    return spb, chunk_ratio, pb_count, sb_count, entries


def bat_index(block: int, chunk_ratio: int) -> int:
    return block + block // chunk_ratio


def sb_index(chunk: int, chunk_ratio: int) -> int:
    return (chunk + 1) * chunk_ratio + chunk


class _Bat(Provider):
    def __init__(self, nentries, table):
        self.length = nentries * 8
        self.table = table

    def read(self, off, n):
        first = off // 8
        last = (off + n + 7) // 8
        buf = bytearray(8 * (last - first))
        if last - first < len(self.table):
            for i in range(first, last):
                v = self.table.get(i)
                if v:
                    struct.pack_into("<Q", buf, (i - first) * 8, v)
        else:
            for i, v in self.table.items():
                if first <= i < last:
                    struct.pack_into("<Q", buf, (i - first) * 8, v)
        lo = off - first * 8
        return bytes(buf[lo : lo + n])


def build(spec: dict):
    bs, ss, size = spec["block_size"], spec["sector_size"], spec["size"]
    layer = spec.get("layer", 0)
    spb, chunk_ratio, pb_count, sb_count, nentries = geometry(spec)
    fh = SparseFile(name=spec.get("name"))

    # the creator field is 512 bytes of free-form UTF-16 text that no reader needs: tools fill it to the last unit, cut long
    # strings mid-character, or leave other bytes there
    creator = {None: "hv-verif".encode("utf-16-le"),
               "full": ("Microsoft Windows 10.0.19041.1 " * 9).encode("utf-16-le")[:512],
               "cut-surrogate": ("creator \U0001F4BE " * 30).encode("utf-16-le")[:510] + b"\x3d\xd8",
               "lone-surrogate": b"\x00\xdc" + "x".encode("utf-16-le"),
               "bytes": bytes(range(1, 256)) * 2 + b"\xff\xff",
               }[spec.get("creator")]
    fh.put(0, (b"vhdxfile" + creator[:512]).ljust(520, b"\x00"))
    s1, s2 = spec.get("seq", [1, 2])
    bad = spec.get("bad_other_header", False)
    w1, w2 = bytes([0xA1]) * 16, bytes([0xA2]) * 16
    # the older header copy may still carry the LogGuid of a log that was replayed before the current header was written
    stale = bytes([0x10]) * 16 if spec.get("stale_log_guid") else bytes(16)
    fh.put(1 * KB64, header_bytes(s1, w1, good=not (bad and s1 < s2), log_guid=stale if s1 < s2 else bytes(16)))
    fh.put(2 * KB64, header_bytes(s2, w2, good=not (bad and s2 < s1), log_guid=stale if s2 < s1 else bytes(16)))

    meta_off = spec["regions"]["metadata"] * MB
    bat_off = spec["regions"]["bat"] * MB
    bat_len = ((nentries * 8 + MB - 1) // MB) * MB
    regs = [(GUID_METADATA, meta_off, MB), (GUID_BAT, bat_off, bat_len)]
    if spec.get("region_order", "mb") == "bm":
        regs.reverse()
    if spec.get("extra_region") is not None:
        # a region this reader does not know, not marked required (a reader may ignore it): placed first / between / last
        regs.insert(spec["extra_region"] % 3, (uuid.UUID("0f0e0d0c-0b0a-4908-8706-050403020100"), 1 * MB, MB, 0))
    rt = region_table_bytes(regs)
    fh.put(3 * KB64, rt)
    fh.put(4 * KB64, rt)

    # metadata region
    disk_id = bytes.fromhex(spec.get("disk_id", "00112233445566778899aabbccddeeff"))
    flags = (2 if spec.get("has_parent") else 0) | (1 if spec.get("leave_allocated") else 0)
    items = [
        (GUID_FILE_PARAMETERS, struct.pack("<II", bs, flags), 0b100),
        (GUID_VIRTUAL_DISK_SIZE, struct.pack("<Q", size), 0b110),
        (GUID_VIRTUAL_DISK_ID, disk_id, 0b110),
        (GUID_LOGICAL_SECTOR_SIZE, struct.pack("<I", ss), 0b110),
        (GUID_PHYSICAL_SECTOR_SIZE, struct.pack("<I", spec.get("physical_sector_size", 4096)), 0b110),
    ]
    if spec.get("has_parent"):
        lt = uuid.UUID(spec["locator_type"]) if spec.get("locator_type") else GUID_VHDX_LOCATOR_TYPE
        items.append((GUID_PARENT_LOCATOR, locator_bytes(spec.get("locator", []), lt, spec.get("locator_layout", "interleaved")), 0b100))
    if spec.get("extra_meta"):
        # an item this reader has no use for and that is not marked required: user metadata (IsUser) written by a management
        # tool, or a system item of a later format revision (MS-VHDX 2.6.2: "ignore unknown items that are not required")
        fl = {"user": 0b001, "user-vd": 0b011, "system": 0b000, "system-vd": 0b010,
              "system-required": 0b100, "user-required": 0b101, "system-vd-required": 0b110}[spec["extra_meta"]]  # the *-required ones: C12 only
        items.append((uuid.UUID("7c1d3f5a-2222-4333-8444-5555aaaa6666" if fl & 1 else "9b9b9b9b-1111-4222-8333-444455556666"), b"user metadata \x00\x01" * 3, fl))
    order = spec.get("meta_order") or list(range(len(items)))
    order = [i for i in order if i < len(items)] + [i for i in range(len(items)) if i not in order]
    gap = spec.get("meta_gap", 0)
    pos = KB64
    entries = b""
    placed = {}
    # data placement follows `order`; table order is the reverse of it (both arbitrary)
    for n, i in enumerate(order):
        g, data, fl = items[i]
        if spec.get("meta_tail") and n == len(order) - 1:
            pos = MB - len(data)  # the last item ends exactly where the metadata region ends
        placed[i] = pos
        fh.put(meta_off + pos, data)
        assert pos + len(data) <= MB, "metadata region overflow"
        pos += len(data) + gap
    for i in reversed(order):
        g, data, fl = items[i]
        entries += struct.pack("<16sIIII", g.bytes_le, placed[i], len(data), fl, 0)
    fh.put(meta_off, struct.pack("<8s2sH20s", b"metadata", bytes(2), len(items), bytes(20)) + entries)

    # BAT + blocks
    table = {}
    lay = Extents(size)
    partial = {int(k): v for k, v in (spec.get("partial") or {}).items()}
    end = max(meta_off + MB, bat_off + bat_len, 5 * KB64)
    stale = []  # (file offset, key): old bytes in space that a no-longer-present block still names; never guest-visible
    for block, state, fmb in spec["blocks"]:
        idx = bat_index(block, chunk_ratio)
        table[idx] = (state & 7) | ((fmb & ((1 << 44) - 1)) << 20)
        ln = min(bs, size - block * bs)
        k = key_for(layer, block)
        if state == PB_FULLY_PRESENT:
            fh.put(fmb * MB, Pat(k, bs))
            end = max(end, fmb * MB + bs)
            lay.put(block * bs, Pat(k, ln))
        elif state == PB_PARTIALLY_PRESENT:
            fh.put(fmb * MB, Pat(k, bs))
            end = max(end, fmb * MB + bs)
            for first, cnt in partial.get(block, []):
                a = first * ss
                b = min((first + cnt) * ss, ln)
                if b > a:
                    lay.put(block * bs + a, Pat(k, b - a, base=a))
        elif state in (PB_UNDEFINED, PB_ZERO, PB_UNMAPPED):
            lay.put(block * bs, Zero(ln))
            if fmb and fmb < (1 << 24):
                stale.append((fmb * MB, k ^ 0x57A1E))
        elif state == PB_NOT_PRESENT and not spec.get("has_parent"):
            pass  # hole == zeros in a non-differencing model
    for chunk, fmb in spec.get("sb", []):
        table[sb_index(chunk, chunk_ratio)] = 6 | (fmb << 20)
        runs = []
        for block, runs_b in partial.items():
            if block // chunk_ratio == chunk:
                base = (block % chunk_ratio) * spb
                runs += [(base + f, c) for f, c in runs_b]
        fh.put(fmb * MB, Bits(MB, runs))
        end = max(end, fmb * MB + MB)
    fh.put(bat_off, _Bat(nentries, table))
    fh.grow(end)
    cur = 0 if s1 > s2 else 1
    meta = {
        "size": size, "block_size": bs, "sector_size": ss, "id": uuid.UUID(bytes_le=disk_id), "has_parent": bool(spec.get("has_parent")),
        "header_seq": max(s1, s2), "header_write_guid": (w1, w2)[cur], "locator": dict(spec.get("locator", [])),
        "metadata_bytes": 5 * KB64 + MB + nentries * 8, "chunk_ratio": chunk_ratio, "bat_entries": nentries,
    }
    for off, k in stale:
        if off >= 5 * KB64 and fh.free(off, bs):
            fh.put(off, Pat(k, bs))
    return fh, lay, meta
