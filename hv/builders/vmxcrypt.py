"""Inverse of the encrypted-VMX reader: builds encryption.keySafe / encryption.data with pycryptodome + hashlib.

Format (as in VMware's crypto-util output and the sample in the repository's tests):
  keySafe = vmware:key/list/(pair/(phrase/<q(id)>/<q(dict)>,<q(mac)>,<q(b64(IV || AES-CBC(PKCS7(cryptodict)) || HMAC(cryptodict)))>),...)
  dict    = pass2key=<q>:cipher=<q>:rounds=<q>:salt=<q(b64)>          (values quoted, then the whole dict quoted again)
  encryption.data = b64(IV || AES-CBC(PKCS7(config text)) || HMAC(config text)) under the data key
HMAC-SHA-1-128 stores the first 16 bytes of HMAC-SHA-1.
"""
from __future__ import annotations

import base64
import hashlib
import json
import hmac

from Crypto.Cipher import AES

KEY_SIZES = {"AES-128": 16, "AES-192": 24, "AES-256": 32}
MACS = {"HMAC-SHA-1": ("sha1", 20), "HMAC-SHA-1-128": ("sha1", 16), "HMAC-SHA-256": ("sha256", 32)}
KDFS = {"PBKDF2-HMAC-SHA-1": "sha1", "PBKDF2-HMAC-SHA-256": "sha256"}


def q(s: str) -> str:
    """VMware style: every non-alphanumeric byte percent-encoded with lower-case hex."""
    return "".join(chr(b) if chr(b).isascii() and chr(b).isalnum() else f"%{b:02x}" for b in s.encode())


def q_min(s: str) -> str:
    """Inner-level style of the sample file: only the characters that are structural in a crypto dict are escaped
    ('%', '=', ':', ',', '(', ')' and non-ASCII); '/', '+', '-' stay literal."""
    return "".join(chr(b) if (chr(b).isascii() and (chr(b).isalnum() or chr(b) in "/+-_.")) else f"%{b:02x}" for b in s.encode())


def pkcs7(data: bytes) -> bytes:
    n = 16 - len(data) % 16
    return data + bytes([n]) * n


def seal(key: bytes, iv: bytes, plaintext: bytes, mac: str) -> dict:
    """-> {"iv", "ct", "mac"} (binary fields of IV || ciphertext || MAC)."""
    digest, size = MACS[mac]
    ct = AES.new(key, AES.MODE_CBC, iv=iv).encrypt(pkcs7(plaintext))
    tag = hmac.digest(key, plaintext, digest)[:size]
    return {"iv": iv, "ct": ct, "mac": tag}


def blob(fields: dict) -> bytes:
    return fields["iv"] + fields["ct"] + fields["mac"]


def derive(pair: dict) -> bytes:
    return hashlib.pbkdf2_hmac(KDFS[pair["kdf"]], pair["passphrase"].encode(), bytes.fromhex(pair["salt"]), pair["rounds"],
                               KEY_SIZES[pair["cipher"]])


def pair_fields(pair: dict, data_key: bytes, data_cipher: str) -> dict:
    qi = q_min if pair.get("inner_quote", "min") == "min" else q
    crypto_dict = f"type=key:cipher={qi(data_cipher)}:key={qi(base64.b64encode(data_key).decode())}"
    return seal(derive(pair), bytes.fromhex(pair["iv"]), crypto_dict.encode(), pair["mac"])


_CHANCE = {}


def chance_padded(pair: dict, key: bytes, data_cipher: str, phrase: str) -> dict:
    ck = (json.dumps(pair, sort_keys=True), key, data_cipher, phrase)
    if ck not in _CHANCE:
        if len(_CHANCE) > 64:
            _CHANCE.clear()
        _CHANCE[ck] = _chance_padded(pair, key, data_cipher, phrase)
    return _CHANCE[ck]


def _chance_padded(pair: dict, key: bytes, data_cipher: str, phrase: str) -> dict:
    """A copy of a decoy `pair` with a salt chosen such that decrypting it with the key derived from `phrase` (the passphrase of
    another pair) yields bytes that happen to end in valid PKCS#7 padding (1 in 256 salts): only the MAC tells it is not the pair."""
    base = bytes.fromhex(pair["salt"])
    for c in range(1 << 14):
        cand = dict(pair, salt=(base[:-2] + c.to_bytes(2, "big")).hex())
        f = pair_fields(cand, key, data_cipher)
        k = hashlib.pbkdf2_hmac(KDFS[cand["kdf"]], phrase.encode(), bytes.fromhex(cand["salt"]), cand["rounds"], KEY_SIZES[cand["cipher"]])
        pt = AES.new(k, AES.MODE_CBC, iv=f["iv"]).decrypt(f["ct"])
        n = pt[-1]
        if 1 <= n <= 16 and pt[-n:] == bytes([n]) * n:
            return cand
    return pair


def pair_text(pair: dict, fields: dict, salt: bytes | None = None) -> str:
    salt = bytes.fromhex(pair["salt"]) if salt is None else salt
    qi = q_min if pair.get("inner_quote", "min") == "min" else q
    d = (f"pass2key={qi(pair['kdf'])}:cipher={qi(pair['cipher'])}:rounds={qi(str(pair['rounds']))}:"
         f"salt={qi(base64.b64encode(salt).decode())}")
    return f"pair/(phrase/{q(pair['id'])}/{q(d)},{q(pair['mac'])},{q(base64.b64encode(blob(fields)).decode())})"


def config_text(entries, style: dict | None = None) -> str:
    style = style or {}
    nl = "\r\n" if style.get("crlf") else "\n"
    lines = []
    for k, v in entries:
        sep = style.get("sep", " = ")
        lines.append(f'{k}{sep}"{v}"' if style.get("quote", True) else f"{k}{sep}{v}")
    return nl.join(lines) + ("" if style.get("no_final_newline") and lines else nl)


def build(spec: dict, tamper=None):
    """Returns (vmx text, expected attr after unlock, expected attr before unlock, lengths of the tamperable fields).

    tamper = (field, pos, xor): field in pair:<i>:iv|ct|mac|salt, data:iv|ct|mac — applied to the decoded binary field."""
    data_key = bytes.fromhex(spec["data_key"])
    inner_text = config_text(spec["inner"], spec.get("inner_style"))
    correct = spec["pairs"][spec["correct"]]
    data_fields = seal(data_key, bytes.fromhex(spec["data_iv"]), inner_text.encode(), correct["mac"])
    pairs = []
    lengths = {"data:iv": len(data_fields["iv"]), "data:ct": len(data_fields["ct"]), "data:mac": len(data_fields["mac"])}
    for i, p in enumerate(spec["pairs"]):
        key = data_key if i == spec["correct"] else hashlib.sha256(b"decoy" + bytes([i])).digest()[: len(data_key)]
        if spec.get("chance_padding") and i < spec["correct"]:
            p = chance_padded(p, key, spec["data_cipher"], correct["passphrase"])
        f = pair_fields(p, key, spec["data_cipher"])
        salt = bytes.fromhex(p["salt"])
        if i == spec["correct"]:
            lengths.update({f"pair:{i}:iv": 16, f"pair:{i}:ct": len(f["ct"]), f"pair:{i}:mac": len(f["mac"]), f"pair:{i}:salt": len(salt)})
        if tamper and tamper[0].startswith(f"pair:{i}:"):
            which = tamper[0].split(":")[2]
            if which == "salt":
                salt = _flip(salt, tamper[1], tamper[2])
            else:
                f[which] = _flip(f[which], tamper[1], tamper[2])
        pairs.append(pair_text(p, f, salt))
    if tamper and tamper[0].startswith("data:"):
        which = tamper[0].split(":")[1]
        data_fields[which] = _flip(data_fields[which], tamper[1], tamper[2])
    keysafe = "vmware:key/list/(" + ",".join(pairs) + ")"
    outer = list(spec["outer"]) + [["encryption.keySafe", keysafe], ["encryption.data", base64.b64encode(blob(data_fields)).decode()]]
    if spec.get("shuffle_outer"):
        outer = outer[-2:] + outer[:-2]
    text = config_text(outer, spec.get("outer_style"))
    before = {}
    for k, v in outer:
        before[k.strip().lower()] = v
    after = dict(before)
    for k, v in spec["inner"]:
        after[k.strip().lower()] = v
    return text, after, before, lengths


def _flip(b: bytes, pos: int, xor: int) -> bytes:
    pos %= len(b)
    return b[:pos] + bytes([b[pos] ^ (xor or 1)]) + b[pos + 1 :]


