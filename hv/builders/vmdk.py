"""Independent VMDK extent writers: hosted sparse (KDMV, incl. stream-optimized), ESX COWD, SE-sparse, flat;
and descriptor text.  From the VMware Virtual Disk Format 1.1/5.0 technote, the libvmdk documentation and
qemu block/vmdk.c (seSparse).  struct only.

extent spec = {
  "kind": "kdmv" | "cowd" | "sesparse" | "flat",
  "capacity": sectors,
  "grain": sectors per grain (kdmv/cowd/sesparse), "gtes": entries per grain table (kdmv; cowd fixed 4096; sesparse from gt_sectors),
  kdmv:     "version", "compressed", "embedded_lba", "footer", "zero_flag", "redundant", "descriptor": str | None,
            "desc_sectors", "meta_first": bool
  cowd:     "gd_offset" (sectors)
  sesparse: "gt_sectors" (grain table size in sectors), "gd_slack" (extra directory sectors)
  "grains": [[index, "a"|"z"|"f", slot], ...]   a=allocated, z=zero grain, f=sesparse fallthrough (reads like unallocated)
  "present_gts": [gd index, ...]   grain tables that exist although (possibly) empty
  "data_base": first data sector, "pad": extra sectors between physical grain slots, "cmix": compressibility class 0..2
  "layer": int
}
"""
from __future__ import annotations

import struct
import zlib

from hv.sparse import Extents, Lit, Mix, Pat, Provider, SparseFile, Zero

SECTOR = 512
GD_AT_END = 0xFFFFFFFFFFFFFFFF
FLAG_NEWLINE, FLAG_REDUNDANT, FLAG_ZERO_GTE, FLAG_COMPRESSED, FLAG_EMBEDDED_LBA = 1, 2, 4, 0x10000, 0x20000
MARKER_EOS, MARKER_GT, MARKER_GD, MARKER_FOOTER = 0, 1, 2, 3

KDMV_FIELDS = {"magic": (0, 4), "version": (4, 4), "flags": (8, 4), "capacity": (12, 8), "grain_size": (20, 8),
               "descriptor_offset": (28, 8), "descriptor_size": (36, 8), "num_gtes": (44, 4), "rgd_offset": (48, 8),
               "gd_offset": (56, 8), "overhead": (64, 8), "unclean": (72, 1), "compress_algorithm": (77, 2)}
COWD_FIELDS = {"magic": (0, 4), "version": (4, 4), "flags": (8, 4), "capacity": (12, 4), "grain_size": (16, 4),
               "gd_offset": (20, 4), "num_gd_entries": (24, 4), "next_free": (28, 4)}
SES_FIELDS = {"magic": (0, 8), "version": (8, 8), "capacity": (16, 8), "grain_size": (24, 8), "grain_table_size": (32, 8),
              "gd_offset": (128, 8), "gd_size": (136, 8), "gt_offset": (144, 8), "gt_size": (152, 8), "grains_offset": (192, 8),
              "grains_size": (200, 8)}


def key_for(layer: int, grain: int) -> int:
    return (0xE3 << 52) | (layer << 40) | (grain + 1)


def kdmv_header(spec, gd_offset, rgd_offset, overhead, desc_off, desc_size) -> bytes:
    flags = FLAG_NEWLINE
    if spec.get("redundant"):
        flags |= FLAG_REDUNDANT
    if spec.get("zero_flag"):
        flags |= FLAG_ZERO_GTE
    if spec.get("compressed"):
        flags |= FLAG_COMPRESSED
        if spec.get("embedded_lba", True):
            flags |= FLAG_EMBEDDED_LBA
    hdr = struct.pack(
        "<4sIIQQQQIQQQB4sH", b"KDMV", spec.get("version", 3 if spec.get("compressed") else 1), flags, spec["capacity"],
        spec["grain"], desc_off, desc_size, spec["gtes"], rgd_offset, gd_offset, overhead, 0, b"\n \r\n",
        1 if spec.get("compressed") else 0,
    )
    assert len(hdr) == 79
    return hdr.ljust(512, b"\x00")


def marker(nsectors: int, mtype: int) -> bytes:
    return struct.pack("<QII", nsectors, 0, mtype).ljust(512, b"\x00")


class _Table(Provider):
    """n little-endian entries of `width` bytes, zero except `table`."""

    def __init__(self, n, table, width):
        self.length = n * width
        self.table = table
        self.width = width
        self.fmt = "<I" if width == 4 else "<Q"

    def read(self, off, n):
        w = self.width
        first = off // w
        last = (off + n + w - 1) // w
        buf = bytearray(w * (last - first))
        if last - first < len(self.table):
            for i in range(first, last):
                v = self.table.get(i)
                if v:
                    struct.pack_into(self.fmt, buf, (i - first) * w, v)
        else:
            for i, v in self.table.items():
                if first <= i < last:
                    struct.pack_into(self.fmt, buf, (i - first) * w, v)
        lo = off - first * w
        return bytes(buf[lo : lo + n])


def fit_content(key: int, nbytes: int, target: int):
    """Grain content whose zlib stream is (as close as possible to) `target` bytes long: `r` incompressible bytes
    followed by pattern.  Used to hit the sector-boundary cases of the compressed-grain header arithmetic."""
    from hv.sparse import pattern, rnd_bytes

    rnd = rnd_bytes(key, min(nbytes, target + 64))

    tag = struct.pack("<QQ", key & 0xFFFFFFFFFFFFFFFF, 0x5EEDF111) * (nbytes // 16 + 1)

    def make(r):  # r incompressible bytes, then a highly compressible per-grain tag pattern
        return rnd[:r] + tag[r:nbytes]

    lo, hi = 0, min(nbytes, len(rnd))
    while lo < hi:  # compressed length grows (almost) monotonically with r
        mid = (lo + hi) // 2
        if len(zlib.compress(make(mid), 6)) < target:
            lo = mid + 1
        else:
            hi = mid
    best = min(range(max(0, lo - 3), min(nbytes, lo + 3) + 1), key=lambda r: abs(len(zlib.compress(make(r), 6)) - target))
    return Lit(make(best))


def grain_content(spec, layer, g, nbytes):
    """Provider of the (uncompressed) grain content."""
    cmix = spec.get("cmix", 0)
    k = key_for(layer, g)
    ct = spec.get("ctargets")
    if spec.get("compressed") and ct:
        return fit_content(k, nbytes, ct[g % len(ct)])
    if spec.get("compressed") and cmix == 3:
        return Lit(bytes([(g * 37 + layer) % 255 + 1]) * nbytes)  # one byte value: the shortest deflate streams there are
    if spec.get("compressed") and cmix == 4:
        return Lit(bytes(64) + Pat(k, nbytes).read(0, nbytes)[64:])  # leading zero bytes (visible in stored / level-0 streams)
    if spec.get("compressed") and cmix:
        plen = nbytes // 2 if cmix == 1 else max(0, nbytes // 16)
        plen = (plen // 512) * 512
        return Mix(k, nbytes, plen)
    return Pat(k, nbytes)


def build(spec: dict):
    kind = spec["kind"]
    if kind == "flat":
        return build_flat(spec)
    if kind == "kdmv":
        return build_kdmv(spec)
    if kind == "cowd":
        return build_cowd(spec)
    if kind == "sesparse":
        return build_sesparse(spec)
    raise ValueError(kind)


def build_flat(spec):
    cap = spec["capacity"]
    size = cap * SECTOR
    layer = spec.get("layer", 0)
    fh = SparseFile(size, name=spec.get("name"))
    lay = Extents(size)
    chunk = 1 << 20
    described = {g for g, _k, _s in spec.get("grains", [])}
    nch = (size + chunk - 1) // chunk
    idxs = described if nch > 64 else set(range(nch)) - set(spec.get("holes", []))
    for i in sorted(idxs):
        if i >= nch:
            continue
        ln = min(chunk, size - i * chunk)
        skip = 0
        if i == 0 and spec.get("head"):
            head = Lit(spec["head"].encode("latin-1")[:ln])  # guest data that starts like a text file
            fh.put(0, head)
            lay.put(0, head)
            skip = head.length
        if ln > skip:
            p = Pat(key_for(layer, i) ^ 0xF1A7, ln - skip, base=skip)
            fh.put(i * chunk + skip, p)
            lay.put(i * chunk + skip, p)
    return fh, lay, {"size": size, "sector_count": cap, "metadata_bytes": 0}


def _layout_tables(spec, ngd, gtes, width, described):
    """Which grain tables exist: those holding a described grain + explicitly present ones."""
    gts = sorted({g // gtes for g, _k, _s in described} | {i for i in spec.get("present_gts", []) if i < ngd})
    return gts


def build_kdmv(spec):
    cap, grain, gtes = spec["capacity"], spec["grain"], spec["gtes"]
    layer = spec.get("layer", 0)
    gbytes = grain * SECTOR
    size = cap * SECTOR
    ngd = (cap + gtes * grain - 1) // (gtes * grain)
    described = spec.get("grains", [])
    gts = _layout_tables(spec, ngd, gtes, 4, described)
    gt_sectors = (gtes * 4 + 511) // 512
    gd_sectors = (ngd * 4 + 511) // 512
    fh = SparseFile(name=spec.get("name"))
    lay = Extents(size)
    compressed = bool(spec.get("compressed"))
    footer = bool(spec.get("footer"))

    pos = 1
    desc_off = desc_size = 0
    if spec.get("descriptor") is not None:
        desc_off = pos + spec.get("desc_gap", 0)
        desc_size = max(spec.get("desc_sectors", 20), (len(spec["descriptor"].encode()) + 511) // 512)
        fh.put(desc_off * SECTOR, spec["descriptor"].encode().ljust(desc_size * SECTOR, b"\x00"))
        pos = desc_off + desc_size

    def place_meta(pos):
        """GD(s) and GTs starting at sector pos; returns (gd_offset, rgd_offset, gt_location, new pos)."""
        rgd = 0
        loc_r = {}
        if spec.get("redundant"):
            rgd = pos
            pos += gd_sectors
            for i in gts:
                loc_r[i] = pos
                pos += gt_sectors
        markers = compressed
        loc = {}
        order = list(gts)
        if spec.get("gt_reverse"):
            order.reverse()
        gd_first = not spec.get("gd_after_gts", compressed)
        gd = None
        if gd_first:
            gd = pos
            pos += gd_sectors
        for i in order:
            if markers:
                fh.put(pos * SECTOR, marker(gt_sectors, MARKER_GT))
                pos += 1
            loc[i] = pos
            pos += gt_sectors
        if not gd_first:
            if markers:
                fh.put(pos * SECTOR, marker(gd_sectors, MARKER_GD))
                pos += 1
            gd = pos
            pos += gd_sectors
        return gd, rgd, loc, loc_r, pos

    meta_first = spec.get("meta_first", not compressed) and not footer
    if meta_first:
        gd, rgd, loc, loc_r, pos = place_meta(pos)
    pos = max(pos, spec.get("data_base", 0), 2)
    # grains
    gte = {}
    contents = {}
    pad = spec.get("pad", 0)
    alloc = sorted([(s, g) for g, k, s in described if k == "a"])
    if not compressed:
        base = pos
        for s, g in alloc:
            sec = base + s * (grain + pad)
            fh.put(sec * SECTOR, Pat(key_for(layer, g), gbytes))
            gte[g] = sec
            pos = max(pos, sec + grain)
    else:
        cur = pos
        last_slot = None
        for s, g in alloc:
            if last_slot is not None and s - last_slot > 1:
                cur += (s - last_slot - 1) * (1 + pad)  # gaps between blobs
            last_slot = s
            contents[g] = grain_content(spec, layer, g, gbytes)
            data = contents[g].read(0, gbytes)
            comp = zlib.compress(data, spec.get("zlevel", 6))
            if spec.get("embedded_lba", True):
                blob = struct.pack("<QI", g * grain, len(comp)) + comp
            else:
                blob = struct.pack("<I", len(comp)) + comp
            nsec = (len(blob) + 511) // 512
            fh.put(cur * SECTOR, blob.ljust(nsec * SECTOR, b"\x00"))
            gte[g] = cur
            cur += nsec + pad
        pos = cur
    for g, k, s in described:
        ln = min(gbytes, size - g * gbytes)
        if ln <= 0:
            continue
        if k == "a":
            lay.put(g * gbytes, Sub_(contents.get(g) or grain_content(spec, layer, g, gbytes), ln))
        elif k == "z":
            gte[g] = 1
            lay.put(g * gbytes, Zero(ln))
    if not meta_first:
        gd, rgd, loc, loc_r, pos = place_meta(pos)
    # write tables
    gdt = {i: loc[i] for i in gts}
    fh.put(gd * SECTOR, _Table(ngd, gdt, 4))
    if spec.get("redundant"):
        fh.put(rgd * SECTOR, _Table(ngd, {i: loc_r[i] for i in gts}, 4))
    for i in gts:
        t = {g - i * gtes: v for g, v in gte.items() if g // gtes == i}
        fh.put(loc[i] * SECTOR, _Table(gtes, t, 4))
        if spec.get("redundant"):
            fh.put(loc_r[i] * SECTOR, _Table(gtes, t, 4))
    overhead = spec.get("data_base", pos)
    if footer:
        hdr = kdmv_header(spec, GD_AT_END, rgd, overhead, desc_off, desc_size)
        fh.put(0, hdr)
        fh.put(pos * SECTOR, marker(1, MARKER_FOOTER))
        fh.put((pos + 1) * SECTOR, kdmv_header(spec, gd, rgd, overhead, desc_off, desc_size))
        fh.put((pos + 2) * SECTOR, marker(0, MARKER_EOS))
        pos += 3
    else:
        fh.put(0, kdmv_header(spec, gd, rgd, overhead, desc_off, desc_size))
        if compressed:
            fh.put(pos * SECTOR, marker(0, MARKER_EOS))
            pos += 1
    fh.grow(pos * SECTOR)
    meta = {"size": size, "sector_count": cap, "gd_entries": ngd,
            "metadata_bytes": 512 * (1 + desc_size + (gd_sectors + len(gts) * (gt_sectors + 1)) * (2 if spec.get("redundant") else 1) + 4)}
    return fh, lay, meta


class Sub_(Provider):
    """First `length` bytes of another provider."""

    def __init__(self, prov, length):
        self.prov = prov
        self.length = length

    def read(self, off, n):
        return self.prov.read(off, n)


def build_cowd(spec):
    cap, grain = spec["capacity"], spec["grain"]
    gtes = 4096
    layer = spec.get("layer", 0)
    gbytes = grain * SECTOR
    size = cap * SECTOR
    ngd = (cap + gtes * grain - 1) // (gtes * grain)
    ngd_field = ngd + spec.get("gd_extra", 0)
    described = spec.get("grains", [])
    gts = _layout_tables(spec, ngd, gtes, 4, described)
    gt_sectors = gtes * 4 // 512
    gd_sectors = (ngd_field * 4 + 511) // 512
    fh = SparseFile(name=spec.get("name"))
    lay = Extents(size)
    gd = max(4, spec.get("gd_offset", 4))
    pos = gd + gd_sectors
    loc = {}
    order = list(gts)
    if spec.get("gt_reverse"):
        order.reverse()
    for i in order:
        loc[i] = pos
        pos += gt_sectors
    pos = max(pos, spec.get("data_base", 0))
    base = pos
    pad = spec.get("pad", 0)
    gte = {}
    for g, k, s in described:
        ln = min(gbytes, size - g * gbytes)
        if ln <= 0 or k != "a":
            continue
        sec = base + s * (grain + pad)
        p = Pat(key_for(layer, g), gbytes)
        fh.put(sec * SECTOR, p)
        lay.put(g * gbytes, Pat(key_for(layer, g), ln))
        gte[g] = sec
        pos = max(pos, sec + grain)
    fh.put(gd * SECTOR, _Table(ngd_field, {i: loc[i] for i in gts}, 4))
    for i in gts:
        fh.put(loc[i] * SECTOR, _Table(gtes, {g - i * gtes: v for g, v in gte.items() if g // gtes == i}, 4))
    hdr = struct.pack("<4sIIIIIII", b"COWD", 1, 3, cap, grain, gd, ngd_field, pos)
    hdr += struct.pack("<III", 1, 16, 63) + bytes(1024) + struct.pack("<I", 0) + struct.pack("<I", 1)
    fh.put(0, hdr.ljust(2048, b"\x00"))
    fh.grow(pos * SECTOR)
    meta = {"size": size, "sector_count": cap, "metadata_bytes": 2048 + 512 * (gd_sectors + len(gts) * gt_sectors)}
    return fh, lay, meta


def ses_gte_alloc(index: int) -> int:
    return 0x3000000000000000 | ((index & 0xFFF) << 48) | ((index >> 12) & 0x0000FFFFFFFFFFFF)


def build_sesparse(spec):
    cap, grain = spec["capacity"], spec["grain"]
    gt_sec = spec.get("gt_sectors", 64)
    gtes = gt_sec * SECTOR // 8
    layer = spec.get("layer", 0)
    gbytes = grain * SECTOR
    size = cap * SECTOR
    ngd = (cap + gtes * grain - 1) // (gtes * grain)
    gd_sectors = (ngd * 8 + 511) // 512 + spec.get("gd_slack", 0)
    described = spec.get("grains", [])
    gts = _layout_tables(spec, ngd, gtes, 8, described)
    fh = SparseFile(name=spec.get("name"))
    lay = Extents(size)
    vol_off, vol_size = 1, 1
    jh_off, jh_size = 2, 2
    j_off, j_size = 4, spec.get("journal_sectors", 8)
    gd_off = j_off + j_size + spec.get("gd_gap", 0)
    gt_off = gd_off + gd_sectors + spec.get("gt_gap", 0)
    # grain table slots: table of GD index i lives in slot slot_of[i]
    slots = {i: n for n, i in enumerate(reversed(gts) if spec.get("gt_reverse") else gts)}
    if spec.get("gt_slot_shift"):
        slots = {i: n + spec["gt_slot_shift"] for i, n in slots.items()}
    ngt_slots = max(slots.values(), default=-1) + 1
    gt_size = max(ngt_slots, 1) * gt_sec
    fb_off = gt_off + gt_size
    fb_size = 1
    bm_off = fb_off + fb_size
    bm_size = 1
    grains_off = max(bm_off + bm_size, spec.get("data_base", 0))
    index_base = spec.get("index_base", 0)  # first grain index used (>= 4096 exercises the high bits)
    gte = {}
    maxidx = -1
    for g, k, s in described:
        ln = min(gbytes, size - g * gbytes)
        if ln <= 0:
            continue
        if k == "a":
            idx = index_base + s
            fh.put((grains_off + idx * grain) * SECTOR, Pat(key_for(layer, g), gbytes))
            lay.put(g * gbytes, Pat(key_for(layer, g), ln))
            gte[g] = ses_gte_alloc(idx)
            maxidx = max(maxidx, idx)
        elif k == "z":
            gte[g] = 0x2000000000000000
            lay.put(g * gbytes, Zero(ln))
        elif k == "f":
            gte[g] = 0x1000000000000000
    fh.put(gd_off * SECTOR, _Table(gd_sectors * 64, {i: 0x1000000000000000 | slots[i] for i in gts}, 8))
    for i in gts:
        fh.put((gt_off + slots[i] * gt_sec) * SECTOR, _Table(gtes, {g - i * gtes: v for g, v in gte.items() if g // gtes == i}, 8))
    grains_size = (maxidx + 1) * grain
    hdr = struct.pack(
        "<26Q", 0xCAFEBABE, 0x0000000200000001, cap, grain, gt_sec, 0, 0, 0, 0, 0, vol_off, vol_size, jh_off, jh_size,
        j_off, j_size, gd_off, gd_sectors, gt_off, gt_size, fb_off, fb_size, bm_off, bm_size, grains_off, grains_size,
    )
    fh.put(0, hdr.ljust(512, b"\x00"))
    fh.put(vol_off * SECTOR, struct.pack("<4Q", 0xCAFEBABE, 0, 0, 0).ljust(512, b"\x00"))
    fh.grow((grains_off + grains_size) * SECTOR)
    meta = {"size": size, "sector_count": cap, "metadata_bytes": 512 * (4 + j_size + gd_sectors + len(gts) * gt_sec + 2)}
    return fh, lay, meta


def descriptor_text(d: dict) -> str:
    """d = {"cid","parent_cid","create_type","parent_hint"?, "extents":[{"access","sectors","type","file","offset"?}], "ddb": {..},
            "crlf": bool, "comments": bool, "extra_attr": {..}}"""
    nl = "\r\n" if d.get("crlf") else "\n"
    out = ["# Disk DescriptorFile", "version=1"]
    if d.get("encoding"):
        out.append(f'encoding="{d["encoding"]}"')
    out.append(f"CID={d.get('cid', 'fffffffe')}")
    out.append(f"parentCID={d.get('parent_cid', 'ffffffff')}")
    for k, v in (d.get("extra_attr") or {}).items():
        out.append(f'{k}="{v}"')
    out.append(f'createType="{d.get("create_type", "twoGbMaxExtentSparse")}"')
    if d.get("parent_hint") is not None:
        out.append(f'parentFileNameHint="{d["parent_hint"]}"')
    out.append("")
    if d.get("comments", True):
        out.append("# Extent description")
    for e in d["extents"]:
        line = f'{e.get("access", "RW")} {e["sectors"]} {e["type"]}'
        if e.get("file") is not None:
            line += f' "{e["file"]}"'
        if e.get("offset") is not None:
            line += f' {e["offset"]}'
        out.append(line)
    out.append("")
    if d.get("comments", True):
        out += ["# The Disk Data Base", "#DDB", ""]
    for k, v in (d.get("ddb") or {}).items():
        out.append(f'{k} = "{v}"')
    return nl.join(out) + nl
