"""Independent VHD (fixed / dynamic) writer, from the Microsoft VHD Image Format Specification 1.0.

spec = {
  "kind": "fixed" | "dynamic", "size": int (multiple of 512), "legacy_footer": bool,
  dynamic only: "block_size": int (power of two), "dyn_offset": int, "table_offset": int (multiples of 512),
                "alloc": [[block, sector_offset], ...]   (absolute sector of the block's bitmap)
  "layer": int,
}
"""
from __future__ import annotations

import struct

from hv.sparse import Extents, Lit, Pat, SparseFile

SECTOR = 512


def key_for(layer: int, block: int) -> int:
    return (0x7D << 52) | (layer << 32) | (block + 1)


def _checksum(buf: bytes) -> int:
    return (~sum(buf)) & 0xFFFFFFFF


def footer_bytes(spec: dict) -> bytes:
    size = spec["size"]
    data_offset = 0xFFFFFFFFFFFFFFFF if spec["kind"] == "fixed" else spec["dyn_offset"]
    disk_type = 2 if spec["kind"] == "fixed" else 3
    fields = [
        b"conectix", spec.get("features", 0x00000002), 0x00010000, data_offset, spec.get("timestamp", 0x2A2A2A2A), b"vpc ", 0x00050003, b"Wi2k",
        spec.get("original_size", size), size, spec.get("geometry", 0x03FF103F), disk_type, 0,
        bytes(range(0xA0, 0xB0)), 0,
    ]
    fmt = ">8sIIQI4sI4sQQIII16sB"
    raw = struct.pack(fmt, *fields).ljust(512, b"\x00")
    fields[12] = _checksum(raw)
    return struct.pack(fmt, *fields).ljust(512, b"\x00")


FOOTER_FIELDS = {"cookie": (0, 8), "features": (8, 4), "version": (12, 4), "data_offset": (16, 8), "original_size": (40, 8),
                 "current_size": (48, 8), "disk_type": (60, 4)}
DYN_FIELDS = {"cookie": (0, 8), "data_offset": (8, 8), "table_offset": (16, 8), "header_version": (24, 4),
              "max_table_entries": (28, 4), "block_size": (32, 4)}


def dyn_header_bytes(spec: dict, nblocks: int) -> bytes:
    fmt = ">8sQQIIII16sII512s"
    fields = [b"cxsparse", 0xFFFFFFFFFFFFFFFF, spec["table_offset"], 0x00010000, nblocks, spec["block_size"], 0,
              bytes(16), 0, 0, bytes(512)]
    raw = struct.pack(fmt, *fields).ljust(1024, b"\x00")
    fields[6] = _checksum(raw)
    return struct.pack(fmt, *fields).ljust(1024, b"\x00")


def bitmap_sectors(block_size: int) -> int:
    spb = block_size // SECTOR
    return ((spb + 7) // 8 + SECTOR - 1) // SECTOR


def build(spec: dict):
    size = spec["size"]
    layer = spec.get("layer", 0)
    footer = footer_bytes(spec)
    if spec.get("legacy_footer"):
        footer = footer[:511]
    fh = SparseFile(name=spec.get("name"))
    lay = Extents(size)
    meta = {"size": size, "footer": {"current_size": size, "original_size": spec.get("original_size", size),
                                     "disk_type": 2 if spec["kind"] == "fixed" else 3, "cookie": b"conectix",
                                     "timestamp": spec.get("timestamp", 0x2A2A2A2A), "disk_geometry": spec.get("geometry", 0x03FF103F),
                                     "unique_id": bytes(range(0xA0, 0xB0)), "creator_application": int.from_bytes(b"vpc ", "big")}}
    if spec["kind"] == "fixed":
        # payload: one pattern stream per 1 MiB so that offsets are checked, with optional holes (zeros)
        chunk = 1 << 20
        holes = set(spec.get("holes", []))
        for i in range((size + chunk - 1) // chunk):
            if i in holes:
                continue
            ln = min(chunk, size - i * chunk)
            skip = 0
            if i == 0 and spec.get("nested_head"):
                inner = {"kind": "dynamic", "size": size + (3 << 20), "dyn_offset": 512, "table_offset": 1536, "block_size": 1 << 21}
                head = Lit(footer_bytes(inner) + dyn_header_bytes(inner, 7))
                fh.put(0, head)
                lay.put(0, head)
                skip = head.length
            cut = 0
            if spec.get("nested_tail") and i * chunk + ln == size and ln - skip >= 1024:
                # guest data whose last sector is the footer of a (fixed) VHD stored at the end of the guest disk: the bytes
                # right in front of the real footer begin with the footer cookie
                cut = 512
                tail = Lit(footer_bytes({"kind": "fixed", "size": max(512, size - 512), "timestamp": 0x11111111}))
                fh.put(size - 512, tail)
                lay.put(size - 512, tail)
            p = Pat(key_for(layer, i), ln - skip - cut, base=skip)
            fh.put(i * chunk + skip, p)
            lay.put(i * chunk + skip, p)
        fh.put(size, footer)
        meta["metadata_bytes"] = 512
        return fh, lay, meta

    bs = spec["block_size"]
    nblocks = (size + bs - 1) // bs
    bms = bitmap_sectors(bs)
    fh.put(0, footer_bytes(spec))  # footer copy is always 512 bytes
    fh.put(spec["dyn_offset"], dyn_header_bytes(spec, nblocks))
    table = dict(map(tuple, spec["alloc"]))
    if nblocks <= 1 << 16:
        buf = bytearray(b"\xff\xff\xff\xff" * nblocks)
        for b, so in table.items():
            struct.pack_into(">I", buf, b * 4, so)
        fh.put(spec["table_offset"], bytes(buf))
    else:
        fh.put(spec["table_offset"], _FillBat(nblocks, table))
    end = max(spec["table_offset"] + 4 * nblocks, spec["dyn_offset"] + 1024)
    last_so = max((so for _b, so in spec["alloc"]), default=None)
    for b, so in spec["alloc"]:
        k = key_for(layer, b)
        fh.put(so * SECTOR, Lit(b"\xff" * ((bs // SECTOR + 7) // 8)))
        ln = min(bs, size - b * bs)
        if spec.get("nested_tail") and so == last_so and bs >= 1024:
            # the block stored last in the file ends with the footer of a VHD kept inside the guest: the sector in front of the
            # real footer begins with the footer cookie
            tail = Lit(footer_bytes({"kind": "fixed", "size": bs, "timestamp": 0x11111111}))
            fh.put((so + bms) * SECTOR, Pat(k, bs - 512))
            fh.put((so + bms) * SECTOR + bs - 512, tail)
            if ln > 0:
                lay.put(b * bs, Pat(k, min(ln, bs - 512)))
                if ln == bs:
                    lay.put(b * bs + bs - 512, tail)
        else:
            fh.put((so + bms) * SECTOR, Pat(k, bs))
            if ln > 0:
                lay.put(b * bs, Pat(k, ln))
        end = max(end, (so + bms) * SECTOR + bs)
    end = ((end + 511) // 512) * 512
    fh.put(end, footer)
    meta["header"] = {"table_offset": spec["table_offset"], "max_table_entries": nblocks, "block_size": bs, "cookie": b"cxsparse"}
    meta["metadata_bytes"] = 512 + 1024 + 4 * nblocks + 512
    return fh, lay, meta


class _FillBat(Lit):
    def __init__(self, n, table):
        self.n = n
        self.table = table
        self.length = n * 4
        self.data = b""

    def read(self, off, n):
        first = off // 4
        last = (off + n + 3) // 4
        buf = bytearray(b"\xff\xff\xff\xff" * (last - first))
        for b, v in self.table.items():
            if first <= b < last:
                struct.pack_into(">I", buf, (b - first) * 4, v)
        lo = off - first * 4
        return bytes(buf[lo : lo + n])
