"""Independent Parallels HDS (expanding image, v1 + v2) and DiskDescriptor.xml writer.

From qemu docs/interop/parallels.txt and prl-xml.txt (struct only).

HDS spec = {
  "version": 1 | 2, "cluster_sectors": int, "size_sectors": int, "bat_entries": int (>= clusters),
  "first_block_offset": int (sectors), "first_block_field": int (header value if different, e.g. 0 in the legacy layout), "in_use": bool,
  "alloc": [[cluster, file_sector], ...]   file_sector: absolute sector of the cluster's data in the file
                                            (v2 requires file_sector % cluster_sectors == 0)
  "layer": int,
}
"""
from __future__ import annotations

import struct
from xml.sax.saxutils import escape

from hv.sparse import Extents, Lit, Pat, SparseFile

SECTOR = 512
SIG_V1 = b"WithoutFreeSpace"
SIG_V2 = b"WithouFreSpacExt"
IN_USE = 0x746F6E59
DEFAULT_TOP = "5fbaabe3-6958-40ff-92a7-860e329aab41"
NULL_GUID = "00000000-0000-0000-0000-000000000000"

FIELDS = {"m_Sig": (0, 16), "m_Type": (16, 4), "m_Heads": (20, 4), "m_Cylinders": (24, 4), "m_Sectors": (28, 4),
          "m_Size": (32, 4), "m_SizeInSectors": (36, 8), "m_DiskInUse": (44, 4), "m_FirstBlockOffset": (48, 4),
          "m_Flags": (52, 4), "m_FormatExtensionOffset": (56, 8)}


def key_for(layer: int, cluster: int) -> int:
    return (0x4D5 << 48) | (layer << 32) | (cluster + 1)


def header_bytes(spec: dict) -> bytes:
    v = spec["version"]
    sig = SIG_V1 if v == 1 else SIG_V2
    if v == 1:
        size_field = struct.pack("<II", spec["size_sectors"], 0)
    else:
        size_field = struct.pack("<Q", spec["size_sectors"])
    return (
        sig
        + struct.pack("<IIIII", 2, 16, spec.get("cylinders", 1), spec["cluster_sectors"], spec["bat_entries"])
        + size_field
        + struct.pack("<IIIQ", IN_USE if spec.get("in_use") else 0, spec.get("first_block_field", spec["first_block_offset"]), 0, 0)
    )


def build(spec: dict):
    cs = spec["cluster_sectors"]
    csz = cs * SECTOR
    size = spec["size_sectors"] * SECTOR
    layer = spec.get("layer", 0)
    fh = SparseFile(name=spec.get("name"))
    hdr = header_bytes(spec)
    assert len(hdr) == 64
    fh.put(0, hdr)
    n = spec["bat_entries"]
    table = {}
    for cl, fsec in spec["alloc"]:
        if spec["version"] == 1:
            table[cl] = fsec
        else:
            assert fsec % cs == 0, "v2 clusters must be cluster aligned"
            table[cl] = fsec // cs
    if n <= 1 << 16:
        buf = bytearray(4 * n)
        for cl, v in table.items():
            struct.pack_into("<I", buf, cl * 4, v)
        fh.put(64, bytes(buf))
    else:
        fh.put(64, _FillBat(n, table))
    lay = Extents(size)
    end = 64 + 4 * n
    for cl, fsec in spec["alloc"]:
        k = key_for(layer, cl)
        fh.put(fsec * SECTOR, Pat(k, csz))
        ln = min(csz, size - cl * csz)
        if ln > 0:
            lay.put(cl * csz, Pat(k, ln))
        end = max(end, fsec * SECTOR + csz)
    fh.grow(max(end, spec["first_block_offset"] * SECTOR))
    meta = {"size": size, "cluster_size": csz, "data_offset": spec.get("first_block_field", spec["first_block_offset"]), "in_use": bool(spec.get("in_use")),
            "metadata_bytes": 64 + 4 * n}
    return fh, lay, meta


class _FillBat(Lit):
    def __init__(self, n, table):
        self.table = table
        self.length = n * 4
        self.data = b""

    def read(self, off, n):
        first = off // 4
        last = (off + n + 3) // 4
        buf = bytearray(4 * (last - first))
        for b, v in self.table.items():
            if first <= b < last:
                struct.pack_into("<I", buf, (b - first) * 4, v)
        lo = off - first * 4
        return bytes(buf[lo : lo + n])


def guid_text(g: str, braces: bool = True) -> str:
    return "{" + g + "}" if braces else g


def descriptor_xml(desc: dict) -> str:
    """desc = {"disk_size": sectors, "storages": [{"start","end","blocksize","images":[{"guid","type","file"}]}],
               "shots": [{"guid","parent"}], "top_guid": str|None, "shuffle": optional storage order (list of indices)}"""
    out = ["<?xml version='1.0' encoding='UTF-8'?>", '<Parallels_disk_image Version="1.0">', "  <Disk_Parameters>",
           f"    <Disk_size>{desc['disk_size']}</Disk_size>", "    <Cylinders>1</Cylinders>", "    <Heads>16</Heads>",
           "    <Sectors>32</Sectors>", "    <Padding>0</Padding>", f"    <Name>{escape(desc.get('name', 'disk'))}</Name>",
           "  </Disk_Parameters>", "  <StorageData>"]
    order = desc.get("shuffle") or list(range(len(desc["storages"])))
    for i in order:
        s = desc["storages"][i]
        out.append("    <Storage>")
        out.append(f"      <Start>{s['start']}</Start>")
        out.append(f"      <End>{s['end']}</End>")
        out.append(f"      <Blocksize>{s.get('blocksize', 2048)}</Blocksize>")
        for im in s["images"]:
            out.append("      <Image>")
            out.append(f"        <GUID>{guid_text(im['guid'])}</GUID>")
            out.append(f"        <Type>{escape(im['type'])}</Type>")
            out.append(f"        <File>{escape(im['file'])}</File>")
            out.append("      </Image>")
        out.append("    </Storage>")
    out.append("  </StorageData>")
    out.append("  <Snapshots>")
    if desc.get("top_guid"):
        out.append(f"    <TopGUID>{guid_text(desc['top_guid'])}</TopGUID>")
    for sh in desc["shots"]:
        out.append("    <Shot>")
        out.append(f"      <GUID>{guid_text(sh['guid'])}</GUID>")
        out.append(f"      <ParentGUID>{guid_text(sh['parent'])}</ParentGUID>")
        out.append("    </Shot>")
    out.append("  </Snapshots>")
    out.append("</Parallels_disk_image>")
    return "\n".join(out) + "\n"
