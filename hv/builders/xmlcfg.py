"""Grammar-based serialisers for OVF, VirtualBox (.vbox), Parallels PVS and VMX configurations + their semantic models."""
from __future__ import annotations

from xml.sax.saxutils import escape, quoteattr

OVF_NS = "http://schemas.dmtf.org/ovf/envelope/1"
RASD_NS = "http://schemas.dmtf.org/wbem/wscim/1/cim-schema/2/CIM_ResourceAllocationSettingData"
VSSD_NS = "http://schemas.dmtf.org/wbem/wscim/1/cim-schema/2/CIM_VirtualSystemSettingData"
VBOX_NS = "http://www.virtualbox.org/"


def text_of(value: str, cdata: bool) -> str:
    """Character data: escaped, or -- where the document uses them -- as a CDATA section (markup characters stand for themselves)."""
    if cdata and ("&" in value or "<" in value) and "]]>" not in value:
        return f"<![CDATA[{value}]]>"
    return escape(value)


# --------------------------------------------------------------------------------------------------- OVF
def ovf_xml(spec: dict, prolog: str = "") -> str:
    """spec = {"files": [[id, href]], "disks": [[diskId, fileRef]], "items": [{"rt": int, "host": str|None, "name": str}],
               "ovf_prefix": str ("" = default namespace), "rasd_prefix": str, "attr_prefix": str, "redundant_ns": bool, "comments": bool,
               "sq": bool (single-quoted attributes)}"""
    op = spec.get("ovf_prefix", "")
    rp = spec.get("rasd_prefix", "rasd")
    ap = spec.get("attr_prefix") or op or "ovf"

    def el(name):
        return f"{op}:{name}" if op else name

    def at(name, value):
        q = quoteattr(value)
        if spec.get("sq") and "'" not in value:
            q = "'" + q[1:-1].replace("&quot;", '"') + "'" if q[0] == '"' else q
        return f"{ap}:{name}={q}"

    ns = []
    if op:
        ns.append(f'xmlns:{op}="{OVF_NS}"')
    else:
        ns.append(f'xmlns="{OVF_NS}"')
    if ap != op:
        ns.append(f'xmlns:{ap}="{OVF_NS}"')
    ns.append(f'xmlns:{rp}="{RASD_NS}"')
    ns.append(f'xmlns:vssd="{VSSD_NS}"')
    # extension attributes from other namespaces on File / Disk elements (the schema allows any), whose local names equal the
    # OVF ones; written before or after them
    fa = spec.get("foreign_attrs")
    if fa:
        ns.append('xmlns:vmw="http://www.vmware.com/schema/ovf"')
        ns.append('xmlns:xlink="http://www.w3.org/1999/xlink"')

    def foreign(own: str, extra: str) -> str:
        if not fa:
            return own
        return f"{extra} {own}" if fa == "before" else f"{own} {extra}"

    out = ['<?xml version="1.0" encoding="UTF-8"?>']
    if prolog:
        out.append(prolog)
    out.append(f"<{el('Envelope')} {' '.join(ns)}>")
    if spec.get("comments"):
        out.append("  <!-- generated -->")
    out.append(f"  <{el('References')}>")
    for fid, href in spec["files"]:
        own = f"{at('id', fid)} {at('href', href)}"
        out.append(f"    <{el('File')} {foreign(own, 'xml:id=' + quoteattr('x' + str(len(out))) + ' xlink:href=' + quoteattr('https://example.invalid/' + str(len(out))))}/>")
    out.append(f"  </{el('References')}>")
    out.append(f"  <{el('DiskSection')}>")
    out.append(f"    <{el('Info')}>disks</{el('Info')}>")
    for did, fref in spec["disks"]:
        # a Disk without fileRef is an empty disk (created at deployment): it has no backing file
        own = f"{at('capacity', '1024')} {at('diskId', did)}" + (f" {at('fileRef', fref)}" if fref is not None else "")
        out.append(f"    <{el('Disk')} {foreign(own, 'vmw:diskId=' + quoteattr('vendor-' + str(len(out))) + ' vmw:fileRef=' + quoteattr('vendor-file'))}/>")
    out.append(f"  </{el('DiskSection')}>")
    vs_ns = f' xmlns:{rp}2="{RASD_NS}"' if spec.get("redundant_ns") else ""
    out.append(f"  <{el('VirtualSystem')} {at('id', 'vm')}{vs_ns}>")
    out.append(f"    <{el('Info')}>a vm</{el('Info')}>")
    out.append(f"    <{el('VirtualHardwareSection')}>")
    out.append(f"      <{el('Info')}>hw</{el('Info')}>")
    out.append(f"      <{el('System')}><vssd:InstanceID>0</vssd:InstanceID></{el('System')}>")
    for n, it in enumerate(spec["items"]):
        out.append(f"      <{el('Item')}>")
        out.append(f"        <{rp}:ElementName>{text_of(it.get('name', 'dev'), spec.get('cdata'))}</{rp}:ElementName>")
        if it.get("host") is not None:
            out.append(f"        <{rp}:HostResource>{escape(it['host'])}</{rp}:HostResource>")
        out.append(f"        <{rp}:InstanceID>{n + 1}</{rp}:InstanceID>")
        out.append(f"        <{rp}:ResourceType>{it['rt']}</{rp}:ResourceType>")
        out.append(f"      </{el('Item')}>")
    out.append(f"    </{el('VirtualHardwareSection')}>")
    out.append(f"  </{el('VirtualSystem')}>")
    out.append(f"</{el('Envelope')}>")
    return "\n".join(out) + "\n"


def ovf_disks(spec: dict) -> list[str]:
    files = dict(map(tuple, spec["files"]))
    disks = {d: (files[f] if f is not None else None) for d, f in spec["disks"]}
    res = []
    for it in spec["items"]:
        if it["rt"] != 17:
            continue
        host = it["host"]
        if host is None:
            continue  # a drive without medium
        if host.startswith("ovf:"):
            host = host[4:]
        kind, ident = host.strip("/").split("/", 1)
        ref = disks[ident] if kind == "disk" else files[ident]
        if ref is not None:  # (an empty disk has no backing file)
            res.append(ref)
    return res


# --------------------------------------------------------------------------------------------------- VirtualBox
def vbox_xml(spec: dict, prolog: str = "") -> str:
    """spec = {"prefix": "" | str, "disks": [node], "dvds": [[location]], "floppies": [[location]], "comments": bool}
       node = {"location": str | None, "format": str | None, "type": str | None, "children": [node]}"""
    p = spec.get("prefix", "")

    def el(n):
        return f"{p}:{n}" if p else n

    ns = f'xmlns:{p}="{VBOX_NS}"' if p else f'xmlns="{VBOX_NS}"'
    out = ['<?xml version="1.0"?>']
    if prolog:
        out.append(prolog)
    out.append(f'<{el("VirtualBox")} {ns} version="1.16-linux">')
    out.append(f'  <{el("Machine")} uuid="{{0d7a2d22-9c20-4a6b-8c36-5b6b1a2f3c44}}" name="vm">')
    out.append(f"    <{el('MediaRegistry')}>")
    out.append(f"      <{el('HardDisks')}>")

    def emit(node, depth):
        attrs = ['uuid="{5f3c8a6e-2b1d-4f7a-9e0c-1a2b3c4d5e6f}"']
        if node.get("location") is not None:
            attrs.append(f"location={quoteattr(node['location'])}")
        if node.get("format") is not None:
            attrs.append(f"format={quoteattr(node['format'])}")
        if node.get("type") is not None:
            attrs.append(f"type={quoteattr(node['type'])}")
        ind = "  " * (4 + depth)
        if node.get("children"):
            out.append(f"{ind}<{el('HardDisk')} {' '.join(attrs)}>")
            for c in node["children"]:
                emit(c, depth + 1)
            out.append(f"{ind}</{el('HardDisk')}>")
        else:
            out.append(f"{ind}<{el('HardDisk')} {' '.join(attrs)}/>")

    for n in spec["disks"]:
        emit(n, 0)
    out.append(f"      </{el('HardDisks')}>")
    out.append(f"      <{el('DVDImages')}>")
    for loc in spec.get("dvds", []):
        out.append(f'        <{el("Image")} uuid="{{aa}}" location={quoteattr(loc)}/>')
    out.append(f"      </{el('DVDImages')}>")
    out.append(f"      <{el('FloppyImages')}>")
    for loc in spec.get("floppies", []):
        out.append(f'        <{el("Image")} uuid="{{bb}}" location={quoteattr(loc)}/>')
    out.append(f"      </{el('FloppyImages')}>")
    out.append(f"    </{el('MediaRegistry')}>")
    if spec.get("comments"):
        out.append("    <!-- hardware -->")
    out.append(f"    <{el('Hardware')}><{el('Memory')} RAMSize=\"1024\"/></{el('Hardware')}>")
    out.append(f"  </{el('Machine')}>")
    out.append(f"</{el('VirtualBox')}>")
    return "\n".join(out) + "\n"


def vbox_disks(spec: dict) -> list[str]:
    """The documented filter: HardDisk elements anywhere in the registry with a location, type 'Normal' and VDI format."""
    res = []

    def walk(node):
        if node.get("location") is not None and node.get("type") == "Normal" and (node.get("format") or "").lower() == "vdi":
            res.append(node["location"])
        for c in node.get("children", []):
            walk(c)

    for n in spec["disks"]:
        walk(n)
    return res


# --------------------------------------------------------------------------------------------------- PVS
def pvs_xml(spec: dict, prolog: str = "") -> str:
    """spec = {"devices": [{"kind": "Hdd"|"CdRom"|"Fdd"|"NetworkAdapter", "system_name": str|None, "first": bool}], "comments": bool}"""
    out = ['<?xml version="1.0" encoding="UTF-8"?>']
    if prolog:
        out.append(prolog)
    out.append('<ParallelsVirtualMachine dyn_lists="VirtualAppliance 0" schemaVersion="1.0">')
    out.append("  <Identification><VmName>vm</VmName></Identification>")
    out.append('  <Hardware dyn_lists="Fdd 0 CdRom 1 Hdd 9">')
    for i, d in enumerate(spec["devices"]):
        out.append(f'    <{d["kind"]} dyn_lists="Partition 0" id="{i}">')
        body = ["      <Index>%d</Index>" % i, "      <Enabled>1</Enabled>"]
        if d.get("system_name") is not None:
            sn = f"      <SystemName>{text_of(d['system_name'], spec.get('cdata'))}</SystemName>"
            body = [sn] + body if d.get("first") else body + [sn]
        out += body
        for j, pn in enumerate(d.get("partitions") or []):  # Boot Camp / physical-disk style partition lists with names of their own
            out.append(f"      <Partition id=\"{j}\"><SystemName>{escape(pn)}</SystemName><Index>{j}</Index></Partition>")
        out.append(f'    </{d["kind"]}>')
    if spec.get("comments"):
        out.append("    <!-- end of hardware -->")
    out.append("  </Hardware>")
    out.append("</ParallelsVirtualMachine>")
    return "\n".join(out) + "\n"


def pvs_disks(spec: dict) -> list[str]:
    return [d["system_name"] for d in spec["devices"] if d["kind"] == "Hdd" and d.get("system_name") is not None]


# --------------------------------------------------------------------------------------------------- VMX
def vmx_text(lines: list, style: dict) -> str:
    """lines = [["kv", key, value, {"sep": " = ", "quote": bool, "indent": str, "trail": str}] | ["comment", text] | ["blank"]]"""
    nl = "\r\n" if style.get("crlf") else "\n"
    out = []
    for ln in lines:
        if ln[0] == "kv":
            _, k, v, st = ln
            val = f'"{v}"' if st.get("quote", True) else v
            out.append(f"{st.get('indent', '')}{k}{st.get('sep', ' = ')}{val}{st.get('trail', '')}")
        elif ln[0] == "comment":
            out.append("#" + ln[1])
        else:
            out.append("")
    return nl.join(out) + (nl if style.get("final_newline", True) else "")


def vmx_model(lines: list) -> dict:
    attr = {}
    for ln in lines:
        if ln[0] == "kv":
            attr[ln[1].strip().lower()] = ln[2]
    return attr
