"""Inverse of the ESXi envelope reader: seals a version-2 DataTransformEnvelope (AES-256-GCM) and writes keystore texts.

Layout (4096-byte blocks):
  block 0: EnvelopeFileHeader (magic[21], pad[483], u32 size, u32 version) + attributes
           attribute = u8 type, u8 flag, 2 reserved bytes, name NUL, value (String: NUL-terminated; Bytes: u64 length + data;
           numeric: little-endian of the type's width); terminated by 4 zero bytes; zero fill
  then   : AES-256-GCM(payload || padding || crypto footer block), AAD = block 0 || optional associated data
           crypto footer block = 3584 zero bytes + DataTransformCryptoFooter (magic[25], pad[479], u32 padding, u32 version)
  last   : DataTransformAeadFooter (magic[23], pad[9], data[4056] = tag, u32 size = 16, u32 version = 1)
"""
from __future__ import annotations

import base64
import hashlib
import struct
import uuid

from Crypto.Cipher import AES

BLOCK = 4096
PBKDF2_SALT = b"This is obfuscation, not encryption. If you want encryption, use TPM."
T_UINT8, T_UINT16, T_UINT32, T_UINT64, T_INT8, T_INT16, T_INT32, T_INT64, T_FLOAT, T_DOUBLE, T_STRING, T_BYTES = range(1, 13)
NUMERIC_FMT = {T_UINT8: "<B", T_UINT16: "<H", T_UINT32: "<I", T_UINT64: "<Q", T_INT8: "<b", T_INT16: "<h", T_INT32: "<i",
               T_INT64: "<q", T_FLOAT: "<f", T_DOUBLE: "<d"}


def pack_attr(t: int, flag: int, name: str, value) -> tuple[bytes, dict]:
    """-> (bytes, {part: (start, end)}) ranges of the authenticated parts relative to the attribute start."""
    head = bytes([t, flag, 0, 0])
    nb = name.encode() + b"\x00"
    if t == T_STRING:
        vb = value.encode() + b"\x00"
        parts = {"type": (0, 1), "flag": (1, 2), "name": (4, 4 + len(nb)), "value": (4 + len(nb), 4 + len(nb) + len(vb))}
    elif t == T_BYTES:
        data = bytes.fromhex(value)
        vb = struct.pack("<Q", len(data)) + data
        parts = {"type": (0, 1), "flag": (1, 2), "name": (4, 4 + len(nb)), "length": (4 + len(nb), 12 + len(nb)),
                 "value": (12 + len(nb), 12 + len(nb) + len(data))}
    else:
        vb = struct.pack(NUMERIC_FMT[t], value)
        parts = {"type": (0, 1), "flag": (1, 2), "name": (4, 4 + len(nb)), "value": (4 + len(nb), 4 + len(nb) + len(vb))}
    return head + nb + vb, parts


def key_hash(key: bytes, cipher: str = "AES-256-GCM") -> bytes:
    return hashlib.sha256(cipher.encode() + key).digest()


def payload_bytes(spec) -> bytes:
    from hv.sparse import pattern

    return pattern(spec.get("payload_key", 7), spec.get("payload_shift", 0), spec["payload_len"])


def build(spec: dict, tamper=None):
    """spec = {"payload_len", "padding", "key": hex, "iv": hex, "attrs": [[type, flag, name, value], ...] (all attributes incl. the
    required ones, in file order; value "@keyhash"/"@iv" are filled in), "aad": hex | None, "cipher": str, "version": int}
    Returns (file bytes, payload, aad bytes | None, ranges) ; ranges: {region: (start, end)} of authenticated byte ranges."""
    key = bytes.fromhex(spec["key"])
    iv = bytes.fromhex(spec["iv"])
    cipher_name = spec.get("cipher", "AES-256-GCM")
    payload = payload_bytes(spec)
    body = b""
    ranges = {}
    pos = 512
    for i, (t, flag, name, value) in enumerate(spec["attrs"]):
        if value == "@keyhash":
            value = key_hash(key, cipher_name).hex()
        elif value == "@iv":
            value = iv.hex()
        raw, parts = pack_attr(t, flag, name, value)
        for pn, (a, b) in parts.items():
            if b > a:
                ranges[f"attr{i}:{pn}"] = (pos + a, pos + b)
        body += raw
        pos += len(raw)
    body += b"\x00" * 4
    if 512 + len(body) > BLOCK:
        raise ValueError("attributes do not fit the header block")
    header = struct.pack("<21s483sII", b"DataTransformEnvelope", bytes(483), BLOCK - 512, spec.get("version", 2)) + body
    header = header.ljust(BLOCK, b"\x00")
    ranges["hdr:magic"] = (0, 21)
    ranges["hdr:version"] = (508, 512)
    footer = bytes(BLOCK - 512) + struct.pack("<25s479sII", b"DataTransformCryptoFooter", bytes(479), spec["padding"], 1)
    plaintext = payload + bytes(spec["padding"]) + footer
    aad = bytes.fromhex(spec["aad"]) if spec.get("aad") is not None else None
    c = AES.new(key, AES.MODE_GCM, nonce=iv)
    c.update(header)
    if aad:
        c.update(aad)
    ct, tag = c.encrypt_and_digest(plaintext)
    aead = struct.pack("<23s9s4056sII", b"DataTransformAeadFooter", bytes(9), tag, len(tag), spec.get("aead_version", 1))
    data = header + ct + aead
    ranges["ct"] = (BLOCK, BLOCK + len(ct))
    ranges["tag"] = (BLOCK + len(ct) + 32, BLOCK + len(ct) + 32 + 16)
    ranges["taglen"] = (BLOCK + len(ct) + 4088, BLOCK + len(ct) + 4089)  # low byte of the tag length: a shortened tag is an altered tag
    if tamper:
        region, pos_, x = tamper
        if region == "aad":
            p = pos_ % len(aad)
            aad = aad[:p] + bytes([aad[p] ^ (x or 1)]) + aad[p + 1 :]
        else:
            a, b = ranges[region]
            p = a + pos_ % (b - a)
            data = data[:p] + bytes([data[p] ^ (x or 1)]) + data[p + 1 :]
    return data, payload, aad, ranges


def keystore_text(ks: dict) -> tuple[str, bytes, str]:
    """ks = {"key_id": hex16, "data1": hex, "data2": hex, "extra": [[name, value]], "style": {...}} -> (text, key, id)"""
    def q(b):
        s = base64.b64encode(b).decode()
        style = ks.get("quote_style", "eq-lower")
        if style == "none":
            return s
        chars = "=" if style.startswith("eq") else "=+/"
        for c in chars:
            h = f"%{ord(c):02x}"
            s = s.replace(c, h.upper() if style.endswith("upper") else h)
        return s

    kid, d1, d2 = bytes.fromhex(ks["key_id"]), bytes.fromhex(ks["data1"]), bytes.fromhex(ks["data2"])
    fields = [f"keyId={q(kid)}", f"data1={q(d1)}", f"data2={q(d2)}", "version=1"]
    order = ks.get("field_order") or [0, 1, 2, 3]  # the fields are named: any order is the same keystore
    enc = ":".join(fields[i] for i in order)
    lines = [[".encoding", "UTF-8"], ["includeKeyCache", "FALSE"], ["mode", "NONE"], ["ConfigEncData", enc]]
    extra = ks.get("extra", [])
    where = ks.get("extra_at", 0) % (len(lines) + 1)
    lines = lines[:where] + [list(e) for e in extra] + lines[where:]
    nl = "\r\n" if ks.get("crlf") else "\n"
    out = []
    for i, (k, v) in enumerate(lines):
        if ks.get("comments") and i % 2 == 0:
            out.append("# a comment = \"x\"")
            out.append("")
        sep = ks.get("sep", " = ")
        out.append(f'{k}{sep}"{v}"')
    key = hashlib.pbkdf2_hmac("sha256", d1 + PBKDF2_SALT, d2, 100000)
    return nl.join(out) + ("" if ks.get("no_final_newline") else nl), key, str(uuid.UUID(bytes=kid))
