"""Independent Hyper-V VMCX/VMRS (HyperVStorage, version 0x400) writer.  struct only.

Layout facts (from VmDataStore.dll research notes and the two sample files; all little-endian, packed):
  file header (46 bytes) at 0x0 and 0x1000: u32 sig 0x01282014, u32 checksum, u16 sequence, u32 version, u64 unknown, u32 alignment,
      u64 replay_log_offset, u64 replay_log_size, u32 header_size
  replay log header (34 bytes): u32 sig 0x01110003, u32 checksum, u32 num_entries, u8, u32 max_entries, 4 x u32, u8
  object table at 0x2000: u32 sig 0x01110001, u32 num_entries; entries (18 bytes): u8 type, u32 checksum, u64 offset, u32 size, u8 allocated
  key table: u16 sig 0x0002, u16 index, u16 sequence, u32 checksum; entries from offset 10:
      u16 type|flags<<8, u32 size, u16 parent_table_idx, u32 parent_offset, u32 checksum, u32 insertion_sequence, u8 data_offset,
      key NUL-terminated (data_offset = len + 1), value; Int/UInt/Double 8 bytes, Bool u32, String/Array u32 length + data,
      Node 12 bytes, file-object pointer (flag 1): u32 size + u64 absolute offset
Checksums are written as zero (algorithm unknown; the reader does not verify them).

spec = {
  "entries": [{"id", "parent" (id | null), "key", "type": node|int|uint|double|string|array|bool, "value", "table": idx, "fo": bool,
               "slack": int}], in per-table layout order
  "tables": {"<idx>": {"seq": int, "free": [[position, size], ...], "tail": "zero"|"free", "stale": {...} | None, "stale_first": bool}},
  "headers": {"seq": [a, b], "bad_other": "" | "version" | "signature"}, "object_table": {"holes": [...], "chain_at": int | None},
  "alignment": 0x1000
}
"""
from __future__ import annotations

import struct

SIG_HEADER, SIG_REPLAY, SIG_OBJTABLE, SIG_KEYTABLE = 0x01282014, 0x01110003, 0x01110001, 0x0002
OT_OBJECT_TABLE, OT_KEY_TABLE, OT_FILE, OT_FREE, OT_REPLAY = 1, 2, 3, 4, 6
KT_FREE, KT_INT, KT_UINT, KT_DOUBLE, KT_STRING, KT_ARRAY, KT_BOOL, KT_NODE = 1, 3, 4, 5, 6, 7, 8, 9
TYPES = {"int": KT_INT, "uint": KT_UINT, "double": KT_DOUBLE, "string": KT_STRING, "array": KT_ARRAY, "bool": KT_BOOL, "node": KT_NODE}
ENTRY_HDR = 21


def value_bytes(e) -> bytes:
    t = e["type"]
    v = e["value"]
    if t == "int":
        return struct.pack("<q", v)
    if t == "uint":
        return struct.pack("<Q", v)
    if t == "double":
        return bytes.fromhex(v)
    if t == "bool":
        return struct.pack("<I", 1 if v else 0)
    if t == "string":
        return v.encode("utf-16-le")
    if t == "array":
        return bytes.fromhex(v)
    if t == "node":
        return bytes(8) + struct.pack("<I", e.get("node_seq", 1))
    raise ValueError(t)


def header_bytes(seq, version, sig, replay_off, replay_size, alignment):
    return struct.pack("<IIHIQIQQI", sig, 0, seq, version, 0, alignment, replay_off, replay_size, 0x1000)


def build(spec: dict) -> tuple[bytes, dict]:
    align = spec.get("alignment", 0x1000)
    entries = spec["entries"]
    by_id = {e["id"]: e for e in entries}
    tables = sorted({e["table"] for e in entries} | {int(k) for k in spec.get("tables", {})})
    out = bytearray(0x3000)
    cursor = [0x3000]

    def alloc(n):
        off = cursor[0]
        size = -(-n // align) * align
        cursor[0] += size + spec.get("gap", 0) * align
        if len(out) < cursor[0]:
            out.extend(bytes(cursor[0] - len(out)))
        return off, size

    # ---- pass 1: positions of entries inside their tables
    pos = {}
    layout = {}
    def place(t, lead_free=0):
        tspec = spec.get("tables", {}).get(str(t), {})
        frees = {p: s for p, s in tspec.get("free", [])}
        if lead_free:
            frees[0] = lead_free
        off = 10
        items = []
        n = 0
        for e in [e for e in entries if e["table"] == t]:
            if n in frees:
                items.append(("free", off, max(ENTRY_HDR, frees[n])))
                off += max(ENTRY_HDR, frees[n])
            kb = e["key"].encode("utf-8") + b"\x00"
            vb = value_bytes(e)
            inline = not e.get("fo")
            if e["type"] in ("string", "array") and inline:
                body = struct.pack("<I", len(vb)) + vb
            elif inline:
                body = vb
            else:
                body = b""  # pointer filled in pass 2
            size = ENTRY_HDR + len(kb) + (len(body) if inline else 12) + (12 if inline and e["type"] != "node" and not e.get("tight") else 0) + e.get("slack", 0)
            items.append(("entry", off, size, e, kb, body))
            pos[e["id"]] = (t, off)
            off += size
            n += 1
        if n in frees and not (lead_free and n == 0):
            items.append(("free", off, max(ENTRY_HDR, frees[n])))
            off += max(ENTRY_HDR, frees[n])
        return items, off, tspec

    for t in tables:
        items, off, tspec = place(t)
        if tspec.get("exact_fill") and any(it[0] == "entry" for it in items):
            # a table filled to its last byte: a free entry in front of the first entry takes up what is left of the allocation,
            # so that the last live entry ends exactly with the table
            lead = dict(map(tuple, tspec.get("free", []))).get(0, 0)
            lead = max(ENTRY_HDR, lead) if lead else 0
            pad = (-(off - lead)) % align
            if pad < ENTRY_HDR:
                pad += align
            items, off, tspec = place(t, lead_free=pad)
            assert off % align == 0, (off, align)
        layout[t] = (items, off, tspec)

    # ---- file objects
    objects = []  # (type, offset, size, allocated)
    fo_ptr = {}
    far = spec.get("fo_far", 0)  # file objects far behind the tables (multi-GiB saved-state files): kept out of `out`
    far_objects = []
    for e in entries:
        if e.get("fo"):
            vb = value_bytes(e)
            if far:
                sz = -(-max(1, len(vb)) // align) * align
                o = far
                far += sz + spec.get("gap", 0) * align
                far_objects.append((o, vb))
            else:
                o, sz = alloc(max(1, len(vb)))
                out[o : o + len(vb)] = vb
            objects.append([OT_FILE, o, sz, 1])
            fo_ptr[e["id"]] = (len(vb), o)

    # ---- pass 2: emit tables
    def emit_table(t, items, used, tspec, seq, mutate=None):
        tail = tspec.get("tail", "zero")
        # the unused tail of a table always has room for one (zeroed or free) entry header: writers allocate tables in
        # alignment-sized units and never split an entry header across the end
        total = used + ENTRY_HDR + 1
        if tspec.get("exact_fill") and used % align == 0:
            total = used  # (see pass 1)
        o, sz = alloc(total)
        buf = bytearray(sz)
        struct.pack_into("<HHHI", buf, 0, SIG_KEYTABLE, t, seq, 0)
        for it in items:
            if it[0] == "free":
                _, off, size = it
                # a freed entry may keep the parent reference it had (table index / offset that no longer resolve)
                sp = tspec.get("free_stale_parent")
                struct.pack_into("<HIHIIIB", buf, off, KT_FREE, size, sp[0] if sp else 0, sp[1] if sp else 0, 0, 0, 0)
                for i in range(off + ENTRY_HDR, off + size):
                    buf[i] = 0xEE
                continue
            _, off, size, e, kb, body = it
            # high byte = flags: bit 0 marks a file-object pointer; bit 1 occurs in real files on string entries and means nothing here
            ptype = TYPES[e["type"]] | (0x100 if e.get("fo") else 0) | (0x200 if e.get("flag2") else 0)
            if e["parent"] is None:
                pt, po = 0, 0
            else:
                pt, po = pos[e["parent"]]
            struct.pack_into("<HIHIIIB", buf, off, ptype, size, pt, po, 0, e.get("ins", 1), len(kb))
            p = off + ENTRY_HDR
            buf[p : p + len(kb)] = kb
            p += len(kb)
            if e.get("fo"):
                ln, fo_off = fo_ptr[e["id"]]
                buf[p : p + 12] = struct.pack("<IQ", ln, fo_off)
            else:
                b = body if mutate is None else mutate(e, body)
                buf[p : p + len(b)] = b
        if tail == "free" and used + ENTRY_HDR <= sz:
            struct.pack_into("<HIHIIIB", buf, used, KT_FREE, sz - used, 0, 0, 0, 0, 0)
        out[o : o + sz] = buf
        return o, sz

    def stale_mutate(e, body):
        # a stale copy holds different values at the same positions
        if e["type"] in ("int", "uint", "double", "bool"):
            return bytes((x ^ 0x5A) & 0xFF for x in body[:4]) + body[4:]
        return body[:4] + bytes((x ^ 0x21) & 0xFF for x in body[4:])

    key_objs = []
    for t in tables:
        items, used, tspec = layout[t]
        seq = tspec.get("seq", 5)
        stale = tspec.get("stale")
        made = []
        if stale is not None and seq > 0:
            made.append(("stale", stale.get("seq", 0) % seq))
        made.append(("active", seq))
        if stale is not None and not tspec.get("stale_first", True):
            made.reverse()
        for kind, s in made:
            o, sz = emit_table(t, items, used, tspec, s, mutate=stale_mutate if kind == "stale" else None)
            key_objs.append([OT_KEY_TABLE, o, sz, 1])

    # ---- replay logs
    rl_off, rl_size = alloc(0x1000)
    out[rl_off : rl_off + 34] = struct.pack("<IIIBIIIIIB", SIG_REPLAY, 0, 0, 0, 0x10, 0, 0, 0, 0, 0)
    rl2_off, _ = alloc(0x1000)
    out[rl2_off : rl2_off + 34] = struct.pack("<IIIBIIIIIB", SIG_REPLAY, 0, 0, 0, 0x20, 0, 0, 0, 0, 0)

    # ---- object tables
    ot = spec.get("object_table", {})
    objs = key_objs + objects
    order = ot.get("order")
    if order:
        objs = [objs[i % len(objs)] for i in order if True] if len(set(i % len(objs) for i in order)) == len(objs) else objs
    holes = set(ot.get("holes", []))
    first_entries = []
    rest = list(objs)
    chain_at = ot.get("chain_at")
    if chain_at is not None and len(rest) > 1:
        # additional object tables: 0x2000 -> A [-> B]; `chain_backwards` puts B at a lower file offset than A
        k = 1 + chain_at % (len(rest) - 1)
        second = rest[k:]
        rest = rest[:k]
        third = []
        if ot.get("chain_depth", 1) >= 2 and len(second) > 1:
            third = second[len(second) // 2 :]
            second = second[: len(second) // 2]

        def write_table(off, ents):
            out[off : off + 8] = struct.pack("<II", SIG_OBJTABLE, len(ents))
            for i, (ty, o_, size, al) in enumerate(ents):
                out[off + 8 + 18 * i : off + 26 + 18 * i] = struct.pack("<BIQIB", ty, 0, o_, size, al)

        if third:
            oa, sza = alloc(8 + 18 * (len(second) + 3))
            ob, szb = alloc(8 + 18 * (len(third) + 2))
            if ot.get("chain_backwards"):
                oa, ob, sza, szb = ob, oa, szb, sza
            write_table(ob, third + [[0, 0, 0, 0]])
            write_table(oa, second + [[OT_OBJECT_TABLE, ob, szb, 1], [0, 0, 0, 0]])
            rest.append([OT_OBJECT_TABLE, oa, sza, 1])
        else:
            o2, sz2 = alloc(8 + 18 * (len(second) + 2))
            write_table(o2, second + [[0, 0, 0, 0]])
            rest.append([OT_OBJECT_TABLE, o2, sz2, 1])
    i = 0
    for obj in rest:
        while i in holes:
            first_entries.append([ot.get("hole_type", 0), 0x3000 if ot.get("hole_type") else 0, 0x1000 if ot.get("hole_type") else 0, 0])
            i += 1
        first_entries.append(obj)
        i += 1
    first_entries += [[0, 0, 0, 0]] * ot.get("trailing", 2)
    if 8 + 18 * len(first_entries) > 0x1000:
        raise ValueError("object table overflow")
    out[0x2000:0x2008] = struct.pack("<II", SIG_OBJTABLE, len(first_entries))
    for i, (ty, off, size, al) in enumerate(first_entries):
        out[0x2008 + 18 * i : 0x2008 + 18 * i + 18] = struct.pack("<BIQIB", ty, 0, off, size, al)

    # ---- headers
    h = spec.get("headers", {})
    s1, s2 = h.get("seq", [2, 1])
    bad = h.get("bad_other", "")
    def hdr(seq, active):
        sig, ver, ro = SIG_HEADER, 0x400, rl_off
        if not active:
            ro = rl2_off
            if bad == "version":
                ver = 0x300
            elif bad == "signature":
                sig = 0x01282015
            elif bad == "replay":
                ro = 0x2000  # not a replay log: would fail if this header were used
        return header_bytes(seq, ver, sig, ro, 0x1000, align)
    out[0:46] = hdr(s1, s1 > s2)
    out[0x1000:0x1000 + 46] = hdr(s2, s2 > s1)
    meta = {"active_seq": max(s1, s2), "replay_log_offset": rl_off, "n_key_tables": len(tables), "far_objects": far_objects}
    return bytes(out), meta


def tree_of(spec) -> dict:
    """Expected as_dict() result: nested dicts; leaves are (type, python value) pairs for typed comparison."""
    kids = {}
    for e in spec["entries"]:
        kids.setdefault(e["parent"], []).append(e)

    def conv(e):
        if e["type"] == "node":
            return {c["key"]: conv(c) for c in kids.get(e["id"], [])}
        t, v = e["type"], e["value"]
        if t == "double":
            return ("double", v)
        if t == "array":
            return ("array", bytes.fromhex(v))
        return (t, v)

    return {e["key"]: conv(e) for e in kids.get(None, [])}
