"""Independent QCOW2 (v2/v3) writer from qemu docs/interop/qcow2.txt.  struct only.

spec = {
  "version": 2|3, "cluster_bits": 9..21, "size": int (multiple of 512),
  "header_length": 104|112|120 (v3), "ext_l2": bool, "data_file": bool, "data_file_name": str,
  "backing": {"name": str, "format": str|None, "length": int} | None,
  "extensions": [[magic, hexpayload], ...]      extra (unknown / feature-table / bitmaps) header extensions, in order
  "ext_order": "before" | "after"              position of the known extensions relative to the extra ones
  "l1_extra": int                               additional zero L1 entries
  "meta_order": permutation of ["l1", "refcount", "snap", "l2"], "l2_interleave": bool
  "far_base": int (byte offset, 0 = directly after the metadata), "copied": bool,
  "clusters": [[guest_index, kind, slot, extra], ...]
      kind: "n" normal, "z" zero-plain, "Z" zero-alloc, "c" compressed, "u" explicitly unallocated (L2 table exists)
      extra: ext_l2 -> [alloc32, zero32] bitmap; compressed -> cmix 0..2
  "l2_slots": {"<l1 index>": slot}  (when l2_interleave),  "cgaps": [byte gaps between compressed blobs]
  "snapshots": [{"id": str, "name": str, "extra_size": 0|16|24|32|40, "unknown_extra": hex, "clusters": [...], "share_active": bool,
                 "date_sec","date_nsec","vm_clock_nsec","vm_state_size","disk_size","icount"}]
  "layer": int
}
"""
from __future__ import annotations

import struct
import zlib

from hv.sparse import Extents, Lit, Mix, Pat, Provider, SparseFile, Zero

MAGIC = 0x514649FB
EXT_END, EXT_BACKING_FORMAT, EXT_FEATURE_TABLE, EXT_BITMAPS, EXT_DATA_FILE = 0, 0xE2792ACA, 0x6803F857, 0x23852875, 0x44415441
INCOMPAT_DATA_FILE, INCOMPAT_EXTL2 = 1 << 2, 1 << 4
OFLAG_COPIED, OFLAG_COMPRESSED, OFLAG_ZERO = 1 << 63, 1 << 62, 1

HEADER_FIELDS = {"magic": (0, 4), "version": (4, 4), "backing_file_offset": (8, 8), "backing_file_size": (16, 4),
                 "cluster_bits": (20, 4), "size": (24, 8), "crypt_method": (32, 4), "l1_size": (36, 4), "l1_table_offset": (40, 8),
                 "refcount_table_offset": (48, 8), "refcount_table_clusters": (56, 4), "nb_snapshots": (60, 4),
                 "snapshots_offset": (64, 8), "incompatible_features": (72, 8), "compatible_features": (80, 8),
                 "autoclear_features": (88, 8), "refcount_order": (96, 4), "header_length": (100, 4), "compression_type": (104, 1)}


def key_for(layer: int, view: int, guest: int) -> int:
    return (0xC0 << 52) | (layer << 44) | (view << 36) | (guest + 1)


class _Table(Provider):
    """n big-endian u64 entries, zero except `table` (index -> value)."""

    def __init__(self, n, table):
        self.length = n * 8
        self.table = table

    def read(self, off, n):
        first = off // 8
        last = (off + n + 7) // 8
        buf = bytearray(8 * (last - first))
        if last - first < len(self.table):
            for i in range(first, last):
                v = self.table.get(i)
                if v:
                    struct.pack_into(">Q", buf, (i - first) * 8, v)
        else:
            for i, v in self.table.items():
                if first <= i < last:
                    struct.pack_into(">Q", buf, (i - first) * 8, v)
        lo = off - first * 8
        return bytes(buf[lo : lo + n])


def ext_bytes(magic: int, payload: bytes) -> bytes:
    return struct.pack(">II", magic, len(payload)) + payload + bytes(-len(payload) % 8)


def cluster_content(layer, view, g, cs, cmix=0):
    k = key_for(layer, view, g)
    if cmix:
        plen = cs // 2 if cmix == 1 else cs // 16
        return Mix(k, cs, (plen // 512) * 512)
    return Pat(k, cs)


def compress_cluster(data: bytes) -> bytes:
    c = zlib.compressobj(6, zlib.DEFLATED, -12)
    return c.compress(data) + c.flush()


class Geometry:
    def __init__(self, spec):
        self.cb = spec["cluster_bits"]
        self.cs = 1 << self.cb
        self.ext = bool(spec.get("ext_l2"))
        self.l2_entries = self.cs // (16 if self.ext else 8)
        self.l2_cover = self.l2_entries * self.cs
        self.size = spec["size"]
        self.l1_min = max(1, (self.size + self.l2_cover - 1) // self.l2_cover)
        self.sc = self.cs // 32 if self.ext else self.cs
        self.csize_shift = 62 - (self.cb - 8)


def build(spec: dict):
    """Returns (fh, data_fh | None, backing_fh | None, views, meta).

    views: {"active": Extents layer, "snapshots": [Extents layer, ...]}; a layer holds data / explicit zeros, holes fall
    through to the backing object (or zeros)."""
    g = Geometry(spec)
    cs, size = g.cs, g.size
    layer = spec.get("layer", 0)
    version = spec["version"]
    fh = SparseFile(name=spec.get("name"))
    use_df = bool(spec.get("data_file"))
    dfh = SparseFile(name=None) if use_df else None
    target = dfh if use_df else fh

    # ---------------------------------------------------------------- header area (cluster 0)
    hlen = 72 if version == 2 else spec.get("header_length", 112)
    exts = []
    known = []
    backing = spec.get("backing")
    if backing and backing.get("format"):
        known.append(ext_bytes(EXT_BACKING_FORMAT, backing["format"].encode()))
    if use_df and spec.get("data_file_named", True):  # the name extension is optional: the caller may supply the data file
        known.append(ext_bytes(EXT_DATA_FILE, spec.get("data_file_name", "data.raw").encode()))
    extra = [ext_bytes(m, bytes.fromhex(p)) for m, p in spec.get("extensions", [])]
    exts = extra + known if spec.get("ext_order") == "after" else known + extra
    ext_blob = b"".join(exts) + ext_bytes(EXT_END, b"")
    if spec.get("ext_end") in ("none", "fill-cluster") and exts:
        # no end-of-extensions marker: the area ends where the backing file name begins, or (without a backing file) with the
        # first cluster, which an unknown extension pads out exactly
        ext_blob = b"".join(exts)
        if not backing and spec["ext_end"] == "fill-cluster" and cs - hlen - len(ext_blob) >= 8:
            padlen = cs - hlen - len(ext_blob) - 8
            spec.setdefault("_pad_ext", [0x0BADF00D, padlen])
            ext_blob += ext_bytes(0x0BADF00D, bytes((i * 5 + 1) & 0xFF for i in range(padlen)))
        elif not backing:
            ext_blob += ext_bytes(EXT_END, b"")
    pos = hlen + len(ext_blob)
    bf_off = bf_size = 0
    bname = b""
    if backing:
        bname = backing["name"].encode()
        bf_off = pos + spec.get("backing_name_gap", 0) * 8
        bf_size = len(bname)
        if spec.get("backing_name_at_end") and cs - bf_size >= pos:
            bf_off = cs - bf_size  # the name may sit anywhere in the first cluster: here it ends with the cluster
        pos = bf_off + bf_size
    if pos > cs:
        raise ValueError("header area does not fit the first cluster")

    # ---------------------------------------------------------------- metadata zone
    cur = [1]  # next free cluster index in the metadata zone

    def take(n):
        c = cur[0]
        cur[0] += n + spec.get("meta_gap", 0)
        return c * cs

    l1_size = g.l1_min + spec.get("l1_extra", 0)
    l1_clusters = (l1_size * 8 + cs - 1) // cs
    snaps = spec.get("snapshots", [])
    views = [("active", spec["clusters"])]
    for i, s in enumerate(snaps):
        if not s.get("share_active"):
            views.append((i, s["clusters"]))
    # which L2 tables exist per view
    l2_needed = {v: sorted({c[0] // g.l2_entries for c in cl}) for v, cl in views}
    offsets = {}
    order = spec.get("meta_order") or ["l1", "refcount", "snap", "l2"]
    interleave = bool(spec.get("l2_interleave"))
    snap_l1 = {}
    # a snapshot taken before the disk grew (shrank) has an L1 table shorter (longer) than the active one
    snap_l1_size = {}
    for i, s in enumerate(snaps):
        n = l1_size
        if not s.get("share_active"):
            if s.get("l1_trim"):
                n = max([c[0] // g.l2_entries + 1 for c in s["clusters"]] + [1])
            n += s.get("l1_grow", 0)
        snap_l1_size[i] = n
    for item in order:
        if item == "l1":
            offsets["l1"] = take(l1_clusters)
            for i, s in enumerate(snaps):
                if not s.get("share_active"):
                    snap_l1[i] = take((snap_l1_size[i] * 8 + cs - 1) // cs)
        elif item == "refcount":
            offsets["refcount"] = take(1)
        elif item == "snap":
            offsets["snap"] = take(max(1, (len(snaps) * 1200 + cs - 1) // cs)) if snaps else 0
        elif item == "l2":
            offsets["l2"] = {}
            for v, need in l2_needed.items():
                for l1i in (reversed(need) if spec.get("l2_reverse") else need):
                    if interleave and v == "active":
                        continue
                    offsets["l2"][(v, l1i)] = take(1)
    meta_end = cur[0] * cs
    far = spec.get("far_base", 0)
    data_base = max(meta_end, (far // cs) * cs)
    if use_df:
        data_base = (far // cs) * cs  # data file: clusters may start at offset 0

    # ---------------------------------------------------------------- data / L2 placement
    l2_slots = {int(k): v for k, v in (spec.get("l2_slots") or {}).items()}
    max_slot = -1
    for c in spec["clusters"]:
        if c[1] in ("n", "Z"):
            max_slot = max(max_slot, c[2])
    if interleave:
        for l1i in l2_needed["active"]:
            sl = l2_slots.get(l1i)
            if sl is None:
                max_slot += 1
                sl = max_slot
            max_slot = max(max_slot, sl)
            # L2 tables always live in the qcow2 file itself
            offsets["l2"][("active", l1i)] = (max(meta_end, (far // cs) * cs) if use_df else data_base) + sl * cs
    if use_df and interleave:
        pass
    snap_zone = [(data_base if not use_df else max(meta_end, data_base)) + (max_slot + 1 + spec.get("snap_gap", 0)) * cs]

    layers = {}
    l1_tables = {}
    comp_items = []  # (view, guest, l2 key, cmix)
    l2_tables = {}
    copied = OFLAG_COPIED if spec.get("copied", True) else 0

    for v, clusters in views:
        vid = 0 if v == "active" else v + 1
        lay = Extents(size)
        layers[v] = lay
        for c in clusters:
            gi, kind, slot, extra = c[0], c[1], c[2], (c[3] if len(c) > 3 else None)
            l1i, l2i = divmod(gi, g.l2_entries)
            tab = l2_tables.setdefault((v, l1i), {})
            goff = gi * cs
            ln = min(cs, size - goff)
            if ln <= 0:
                continue
            key = key_for(layer, vid, gi)
            if kind in ("n", "Z"):
                if v == "active":
                    host = data_base + slot * cs
                else:
                    host = snap_zone[0]
                    snap_zone[0] += cs
                t = target if v == "active" or use_df else fh
                if v != "active" and use_df:
                    t = dfh
                t.put(host, Pat(key, cs))
                # with an external data file every allocated cluster has refcount 1: COPIED is always set (qcow2.txt)
                entry = host | (OFLAG_COPIED if use_df else copied)
                if kind == "Z" and not g.ext:
                    entry |= OFLAG_ZERO
                    lay.put(goff, Zero(ln))
                    bitmap = 0
                elif g.ext:
                    alloc, zero = extra if extra else (0xFFFFFFFF, 0)
                    if kind == "Z":
                        alloc, zero = 0, 0xFFFFFFFF
                    assert alloc & zero == 0
                    bitmap = alloc | (zero << 32)
                    _put_subclusters(lay, goff, ln, g.sc, alloc, zero, key)
                else:
                    bitmap = 0
                    lay.put(goff, Pat(key, ln))
            elif kind == "z":
                if g.ext:
                    zero = extra[1] if extra else 0xFFFFFFFF
                    entry, bitmap = 0, zero << 32
                    _put_subclusters(lay, goff, ln, g.sc, 0, zero, key)
                else:
                    entry, bitmap = OFLAG_ZERO, 0
                    lay.put(goff, Zero(ln))
            elif kind == "c":
                cmix = extra if isinstance(extra, int) else 0
                while True:  # lower the incompressible share until the deflated cluster is smaller than a cluster
                    content = cluster_content(layer, vid, gi, cs, cmix)
                    blob = compress_cluster(content.read(0, cs))
                    if len(blob) < cs or cmix == 0:
                        break
                    cmix = {2: 1, 1: 0}[cmix]
                if len(blob) >= cs:
                    raise ValueError("pattern cluster is not compressible")
                comp_items.append((v, gi, blob))
                entry, bitmap = None, 0
                lay.put(goff, _Head(content, ln))
            elif kind == "u":
                entry, bitmap = 0, 0
            else:
                raise ValueError(kind)
            if g.ext:
                tab[2 * l2i] = entry
                tab[2 * l2i + 1] = bitmap
            else:
                tab[l2i] = entry

    # compressed blobs: a byte-granular zone after everything else in the qcow2 file
    comp_base = max(snap_zone[0], meta_end) if not use_df else meta_end
    if interleave and use_df:
        comp_base = max(comp_base, max((o for o in offsets["l2"].values()), default=0) + cs)
    comp_base = max(comp_base, spec.get("comp_far", 0))
    cpos = comp_base + spec.get("comp_shift", 0)
    cgaps = spec.get("cgaps") or [0]
    for n, (v, gi, blob) in enumerate(comp_items):
        if cpos + len(blob) >= 1 << g.csize_shift:
            raise ValueError("compressed offset exceeds field width")
        fh.put(cpos, blob)
        nb = ((cpos + len(blob) - 1) >> 9) - (cpos >> 9)
        entry = OFLAG_COMPRESSED | (nb << g.csize_shift) | cpos
        l1i, l2i = divmod(gi, g.l2_entries)
        tab = l2_tables[(v, l1i)]
        if g.ext:
            tab[2 * l2i] = entry
        else:
            tab[l2i] = entry
        cpos += len(blob) + cgaps[n % len(cgaps)]
    file_end = ((cpos + 511) // 512) * 512

    # write L2 tables, L1 tables
    for (v, l1i), tab in l2_tables.items():
        off = offsets["l2"].get((v, l1i))
        if off is None:  # interleaved snapshot L2s go to the snapshot zone
            off = snap_zone[0] if not use_df else None
            if off is None:
                off = file_end = ((file_end + cs - 1) // cs) * cs
                file_end += cs
            else:
                snap_zone[0] += cs
            offsets["l2"][(v, l1i)] = off
        fh.put(off, _Table(g.l2_entries * (2 if g.ext else 1), {i: e for i, e in tab.items() if e}))
        l1_tables.setdefault(v, {})[l1i] = off | copied
    fh.put(offsets["l1"], _Table(l1_size, l1_tables.get("active", {})))
    for i, off in snap_l1.items():
        fh.put(off, _Table(snap_l1_size[i], l1_tables.get(i, {})))

    fh.put(offsets["refcount"], Lit(bytes(8)))
    for o in [offsets["l1"], offsets["refcount"], *offsets["l2"].values(), *snap_l1.values()]:
        if o >= 1 << 56 or o % cs:
            raise ValueError(f"table offset {o:#x} not representable")

    # snapshot table
    snap_meta = []
    if snaps:
        blob = b""
        for i, s in enumerate(snaps):
            extra_size = s.get("extra_size", 16)
            full = struct.pack(">QQQ", s.get("vm_state_size_large", 0), s.get("disk_size", size), s.get("icount", 0xFFFFFFFFFFFFFFFF))
            unk = bytes.fromhex(s.get("unknown_extra", ""))
            extra_data = full[: min(extra_size, 24)] + (unk if extra_size > 24 else b"")
            extra_size = len(extra_data)
            idb, nameb = s["id"].encode(), s["name"].encode()
            l1off = offsets["l1"] if s.get("share_active") else snap_l1[i]
            ent = struct.pack(">QIHHIIQII", l1off, snap_l1_size[i], len(idb), len(nameb), s.get("date_sec", 0), s.get("date_nsec", 0),
                              s.get("vm_clock_nsec", 0), s.get("vm_state_size", 0), extra_size) + extra_data + idb + nameb
            ent += bytes(-len(ent) % 8)
            blob += ent
            snap_meta.append({"id": s["id"], "name": s["name"], "l1_size": snap_l1_size[i], "l1_table_offset": l1off,
                              "extra_size": extra_size, "unknown_extra": unk if extra_size > 24 else None,
                              "disk_size": s.get("disk_size", size) if extra_size >= 16 else 0,
                              "vm_state_size_large": s.get("vm_state_size_large", 0) if extra_size >= 8 else 0,
                              "icount": s.get("icount", 0xFFFFFFFFFFFFFFFF) if extra_size >= 24 else 0,
                              "date_sec": s.get("date_sec", 0), "vm_clock_nsec": s.get("vm_clock_nsec", 0)})
        fh.put(offsets["snap"], blob)

    # header
    incompat = (INCOMPAT_DATA_FILE if use_df else 0) | (INCOMPAT_EXTL2 if g.ext else 0)
    hdr = struct.pack(">IIQIIQIIQQIIQ", MAGIC, version, bf_off, bf_size, g.cb, size, 0, l1_size, offsets["l1"],
                      offsets["refcount"], 1, len(snaps), offsets.get("snap", 0) or 0)
    if version == 3:
        hdr += struct.pack(">QQQII", incompat, spec.get("compatible", 0), spec.get("autoclear", 0), 4, hlen)
        if hlen > 104:
            hdr += bytes([0]) + bytes(hlen - 105)
    assert len(hdr) == hlen
    blob0 = hdr + ext_blob
    if backing:
        blob0 = blob0.ljust(bf_off, b"\x00") + bname
    fh.put(0, blob0)
    for end_candidate in (file_end, snap_zone[0] if not use_df else 0, meta_end):
        fh.grow(end_candidate)

    bfh = None
    if backing:
        blen = backing["length"]
        bfh = SparseFile(blen)
        blay = Extents(blen)
        chunk = 1 << 16
        nch = (blen + chunk - 1) // chunk
        idxs = range(nch) if nch <= 4096 else sorted({c[0] * cs // chunk for c in spec["clusters"]} | {0, nch - 1})
        head = b""
        if backing.get("nested_head") and not spec.get("_nested"):
            # a raw backing object whose own content is a (small, complete) qcow2 image stored at guest offset 0: raw means raw
            head = nested_image()[: blen]
            bfh.put(0, head)
            blay.put(0, head)
        for i in idxs:
            if i >= nch:
                continue
            ln = min(chunk, blen - i * chunk)
            skip = min(ln, max(0, len(head) - i * chunk))
            if ln > skip:
                p = Pat((0xBAC << 48) | (layer << 32) | i, ln - skip, base=skip)
                bfh.put(i * chunk + skip, p)
                blay.put(i * chunk + skip, p)
        layers["backing"] = blay

    n_l2 = len(l2_tables)
    meta = {
        "size": size, "cluster_size": cs, "l1_size": l1_size, "l1_table_offset": offsets["l1"], "version": version,
        "backing_name": backing["name"] if backing else None, "backing_format": backing.get("format") if backing else None,
        "data_file_name": spec.get("data_file_name", "data.raw") if use_df and spec.get("data_file_named", True) else None,
        "extensions": [(m, bytes.fromhex(p)) for m, p in spec.get("extensions", [])]
        + ([(spec["_pad_ext"][0], bytes((i * 5 + 1) & 0xFF for i in range(spec["_pad_ext"][1])))] if spec.get("_pad_ext") else []),
        "snapshots": snap_meta, "header_length": hlen, "incompatible": incompat if version == 3 else 0,
        # header + extensions + backing name, L1 table(s), every L2 table, snapshot table (refcounts are not mapping metadata)
        "metadata_bytes": len(blob0) + l1_size * 8 + sum(snap_l1_size[i] * 8 for i in snap_l1) + n_l2 * cs + len(snaps) * 1200,
        "n_l2": n_l2,
    }
    return fh, dfh, bfh, layers, meta


class _Head(Provider):
    def __init__(self, prov, length):
        self.prov = prov
        self.length = length

    def read(self, off, n):
        return self.prov.read(off, n)


def _put_subclusters(lay, goff, ln, sc, alloc, zero, key):
    """Add runs of allocated (pattern) / zero sub-clusters of one cluster to the layer; the rest stays transparent."""
    i = 0
    while i < 32:
        a, z = (alloc >> i) & 1, (zero >> i) & 1
        j = i
        while j < 32 and ((alloc >> j) & 1, (zero >> j) & 1) == (a, z):
            j += 1
        lo, hi = i * sc, min(j * sc, ln)
        if hi > lo:
            if z:
                lay.put(goff + lo, Zero(hi - lo))
            elif a:
                lay.put(goff + lo, Pat(key, hi - lo, base=lo))
        i = j


_NESTED = []


def nested_image() -> bytes:
    """A complete little qcow2 image (512-byte clusters, two data clusters) used as *content* of raw objects."""
    if not _NESTED:
        spec = {"version": 3, "cluster_bits": 9, "size": 16 << 9, "header_length": 112, "ext_l2": False, "data_file": False,
                "clusters": [[0, "n", 0, None], [2, "n", 1, None]], "l2_interleave": False, "l2_slots": {}, "meta_order": ["l1", "refcount", "snap", "l2"],
                "far_base": 0, "copied": True, "comp_shift": 0, "cgaps": [0], "comp_far": 0, "layer": 0x7E, "_nested": True}
        _NESTED.append(build(spec)[0].materialize())
    return _NESTED[0]
