"""Independent VirtualBox VDI (v1.1) writer, from VDICore.h.  struct only, never imports the repo's layouts.

spec = {
  "block_size": int (power of two >= 512), "nblocks": int, "disk_size": int (multiple of 512),
  "blocks_offset": int, "data_offset": int (multiples of 512, fit in 32 bits),
  "alloc": [[logical, physical], ...], "zero": [logical, ...],      # every other block is unallocated (-1)
  "layer": int (content key namespace),
}
"""
from __future__ import annotations

import struct

from hv.sparse import Extents, Lit, Pat, SparseFile, Zero

VDI_SIGNATURE = 0xBEDA107F
UNALLOCATED = 0xFFFFFFFF  # -1
ZERO_BLOCK = 0xFFFFFFFE  # -2


def key_for(layer: int, block: int) -> int:
    return (0x5D1 << 48) | (layer << 32) | (block + 1)


def header_bytes(spec: dict) -> bytes:
    # the free-form text in front of the signature names the writer (VirtualBox under its three owners, qemu-img, others)
    info = spec.get("banner", "<<< Oracle VM VirtualBox Disk Image >>>\n").encode("latin-1")[:64].ljust(64, b"\x00")
    nalloc = len(spec["alloc"])
    uu = [bytes([0x10 + i]) * 16 for i in range(4)]
    hdr = struct.pack(
        "<64sII" "III256s" "II" "IIII" "I" "Q" "IIII" "16s16s16s16s",
        info, VDI_SIGNATURE, 0x00010001,
        0x190, spec.get("image_type", 1), 0, spec.get("description", "").encode().ljust(256, b"\x00"),
        spec["blocks_offset"], spec["data_offset"],
        0, 0, 0, 512,
        0,
        spec["disk_size"],
        spec["block_size"], 0, spec["nblocks"], nalloc,
        *uu,
    )
    return hdr.ljust(512, b"\x00")


FIELDS = {  # name -> (offset, width) for mutation (C11/C12)
    "Signature": (64, 4), "Version": (68, 4), "HeaderSize": (72, 4), "ImageType": (76, 4),
    "BlocksOffset": (340, 4), "DataOffset": (344, 4), "SectorSize": (360, 4), "DiskSize": (368, 8),
    "BlockSize": (376, 4), "BlockExtraData": (380, 4), "BlocksInHDD": (384, 4), "BlocksAllocated": (388, 4),
}


def build(spec: dict):
    """Returns (SparseFile, layer Extents (data/zero extents, holes = unallocated), meta)."""
    bs = spec["block_size"]
    nb = spec["nblocks"]
    size = spec["disk_size"]
    layer = spec.get("layer", 0)
    fh = SparseFile(name=spec.get("name"))
    fh.put(0, header_bytes(spec))

    table = {}
    for lg, ph in spec["alloc"]:
        table[lg] = ph
    for lg in spec["zero"]:
        table[lg] = ZERO_BLOCK
    # block map: sparse literal runs so huge maps stay cheap
    bo = spec["blocks_offset"]
    default = struct.pack("<I", UNALLOCATED)
    if nb <= 1 << 16:
        buf = bytearray(default * nb)
        for lg, v in table.items():
            struct.pack_into("<I", buf, lg * 4, v)
        fh.put(bo, bytes(buf))
    else:
        fh.put(bo, _FillMap(nb, table))

    lay = Extents(size)
    do = spec["data_offset"]
    for lg, ph in spec["alloc"]:
        k = key_for(layer, lg)
        fh.put(do + ph * bs, Pat(k, bs))
        ln = min(bs, size - lg * bs)
        if ln > 0:
            lay.put(lg * bs, Pat(k, ln))
    for lg in spec["zero"]:
        ln = min(bs, size - lg * bs)
        if ln > 0:
            lay.put(lg * bs, Zero(ln))
    end = do + (max([ph for _, ph in spec["alloc"]], default=-1) + 1) * bs
    fh.grow(max(end, bo + 4 * nb, 512))
    meta = {
        "size": size, "block_size": bs, "sector_size": 512, "data_offset": do,
        "BlocksOffset": bo, "BlocksInHDD": nb, "BlocksAllocated": len(spec["alloc"]),
        "metadata_bytes": 512 + 4 * nb,
    }
    return fh, lay, meta


class _FillMap(Lit):
    """Block map of nb uint32 entries, all UNALLOCATED except a few: computed on demand."""

    def __init__(self, nb, table):
        self.nb = nb
        self.table = table
        self.length = nb * 4
        self.data = b""

    def read(self, off, n):
        first = off // 4
        last = (off + n + 3) // 4
        buf = bytearray(struct.pack("<I", UNALLOCATED) * (last - first))
        for lg, v in self.table.items():
            if first <= lg < last:
                struct.pack_into("<I", buf, (lg - first) * 4, v)
        lo = off - first * 4
        return bytes(buf[lo : lo + n])
