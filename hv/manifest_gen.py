"""Regenerates MANIFEST.json from the table below:  /venv/bin/python -m hv.manifest_gen"""
from __future__ import annotations

import json
import os

from hv.core import VERIF_DIR

SETUP = (
    "(/venv/bin/python -c 'import hypothesis' 2>/dev/null || "
    "/venv/bin/pip install --no-index --find-links /opt/veriftools/wheels hypothesis) && "
    "(PYTHONPATH=/verif/.deps /venv/bin/python -c 'import atheris' 2>/dev/null || "
    "/venv/bin/pip install --no-index --find-links /opt/veriftools/wheels --target /verif/.deps atheris || true)"
)

import importlib

DEFAULT_TECH = "property-based testing (Hypothesis) over an independent builder + reference model oracle"


def check_texts(pid):
    mod = importlib.import_module(f"hv.props.{pid.lower()}")
    tech = getattr(mod, "TECHNIQUE", DEFAULT_TECH)
    text = getattr(mod, "LEVEL_TEXT", None) or (
        "Generated-input exploration against an explicit oracle: " + getattr(mod, "RULE", "")
        + " Finds input-dependent violations the fixed samples cannot reach; does not prove absence."
    )
    note = getattr(mod, "LEVEL_NOTE", None) or (
        "Trusted: the independent builders/serialisers and reference models under /verif/hv (written from the format "
        "specifications, never importing the repo's layouts). " + " ".join(getattr(mod, "ASSUMPTIONS", []))
    )
    return tech, text, note, f"DESIGN.md section 3 {pid}"


NOT_YET = "check not built yet in this round (work in progress; see DESIGN.md)"


def main():
    props = []
    with open(os.path.join(VERIF_DIR, "properties.jsonl")) as f:
        for line in f:
            if line.strip():
                props.append(json.loads(line)["id"])
    checks = []
    na = []
    for pid in props:
        if os.path.exists(os.path.join(VERIF_DIR, "hv", "props", pid.lower() + ".py")):
            tech, text, note, ref = check_texts(pid)
            checks.append({
                "property_id": pid,
                "quick_cmd": f"./check {pid} --tier quick",
                "thorough_cmd": f"./check {pid} --tier thorough",
                "evidence_file": f"/verif/evidence/{pid}.json",
                "replay_cmd_template": f"./check {pid} --replay {{path}}",
                "engine": "hv",
                "level_claimed": {"category": "exploration", "text": text, "design_ref": ref},
                "level_note": note,
                "technique": tech,
            })
        else:
            na.append({"property_id": pid, "reason": NOT_YET})
    man = {
        "version": 1,
        "setup_cmd": SETUP,
        "hooks": {
            "guard": "DISSECT_HYPERVISOR_VERIF",
            "enable": "no hooks: all observation is through the public API, supplied file objects, sys.addaudithook, "
                      "tracemalloc and resource; the guard variable is unused",
            "baseline_off_cmd": "cd /repo && /venv/bin/python -m pytest -ra -q -p no:cacheprovider --timeout=900 "
                                "--continue-on-collection-errors",
            "source_commits": [],
            "add_only": True,
        },
        "engines": [{
            "name": "hv",
            "path": "/verif/hv",
            "serves_properties": [c["property_id"] for c in checks],
            "kind_free_text": "Hypothesis property-based testing (plain + stateful) over independent image/descriptor "
                              "builders with reference models; exhaustive enumeration of small finite sub-domains; "
                              "structure-aware mutation; 16-way sharded worker processes",
        }],
        "checks": checks,
        "not_applicable": na,
        "notes": "All checks: ./check <ID> --tier quick|thorough ; replay: ./check <ID> --replay <file>. "
                 "Known findings: KNOWN_FINDINGS.txt. Exit 2 = harness error (never a violation).",
    }
    with open(os.path.join(VERIF_DIR, "MANIFEST.json"), "w") as f:
        json.dump(man, f, indent=1)
        f.write("\n")
    print(f"{len(checks)} checks, {len(na)} not_applicable")


if __name__ == "__main__":
    main()
