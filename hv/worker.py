"""Worker process: runs one shard of one property's search and writes a JSON result file.

usage: python -m hv.worker <mode> <PROP> <tier> <seed> <shard> <nshards> <outfile> [json-args]
modes: search | exhaustive | replay | shrink
"""
from __future__ import annotations

import importlib
import json
import os
import sys
import time
import traceback

from hv import core


class Collector:
    MAX_SAMPLES = 4

    def __init__(self):
        self.evaluations = 0
        self.digests: set[str] = set()
        self.classes: dict[str, int] = {}
        self.samples: list = []
        self.failures: dict[str, dict] = {}

    def handle(self, spec, outcome: core.Outcome) -> None:
        self.evaluations += 1
        for c in outcome.classes:
            self.classes[c] = self.classes.get(c, 0) + 1
        if outcome.nontrivial:
            d = core.spec_digest(spec)
            if d not in self.digests:
                self.digests.add(d)
                if len(self.samples) < self.MAX_SAMPLES:
                    self.samples.append(_truncate(spec))
        for f in outcome.failures:
            e = self.failures.get(f.sig)
            sz = core.spec_size(spec)
            if e is None:
                self.failures[f.sig] = {"count": 1, "spec": spec, "size": sz, "message": f.message}
            else:
                e["count"] += 1
                if sz < e["size"]:
                    e.update(spec=spec, size=sz, message=f.message)

    def result(self) -> dict:
        return {
            "evaluations": self.evaluations,
            "digests": sorted(self.digests),
            "classes": self.classes,
            "samples": self.samples,
            "failures": self.failures,
        }


def _truncate(spec, limit=1500):
    s = json.dumps(spec, sort_keys=True, default=repr)
    if len(s) <= limit:
        return spec
    return {"truncated_json": s[:limit] + "...", "full_length": len(s)}


CASE_CPU_S = float(os.environ.get("VERIF_CASE_CPU_S", "10"))
MAX_HANGS = 3


class StopSearch(Exception):
    """Enough hangs seen in this shard: stop exploring (the failure is established, more only burn time)."""


def _on_timer(signum, frame):
    raise core.CaseTimeout(f"case exceeded {CASE_CPU_S}s of CPU time")


def guarded(mod, spec):
    """mod.check(spec) under a per-case CPU-time budget.  A budget overrun inside library code becomes a failure
    (`hang|...`); elsewhere it is a harness error."""
    import signal

    breadcrumb(spec)
    from hv import sparse

    sparse.FLAVOURS = bool(isinstance(spec, dict) and spec.get("flavours"))
    signal.signal(signal.SIGPROF, _on_timer)
    signal.setitimer(signal.ITIMER_PROF, CASE_CPU_S, CASE_CPU_S)
    try:
        return mod.check(spec)
    except core.CaseTimeout as e:
        if core.in_library(e):
            out = core.Outcome()
            out.fail(f"hang|{core.exc_frame(e, outermost=True)}", f"no result after {CASE_CPU_S}s CPU, in {core.exc_frame(e)}")
            return out
        raise core.HarnessError(f"case budget exceeded outside library code: {core.exc_frame(e)}") from e
    except MemoryError as e:
        # the worker's address space is capped (RLIMIT_AS): running out of it while a case executes library code is a
        # resource blow-up of that case, not a harness problem
        import gc

        gc.collect()
        if core.in_library(e):
            out = core.Outcome()
            out.fail(f"memory|MemoryError|{core.exc_frame(e, outermost=True)}", f"MemoryError under the worker's address-space cap, in {core.exc_frame(e)}")
            return out
        raise
    finally:
        signal.setitimer(signal.ITIMER_PROF, 0)
        core.release_tracked()


BREADCRUMB = {"path": None}


def breadcrumb(spec) -> None:
    """Remember the case that is about to run, so that the runner can report it if this process dies from a fatal signal
    (a native crash can only come from the code under test and its dependencies, the harness is pure Python)."""
    p = BREADCRUMB["path"]
    if p:
        try:
            with open(p, "w") as f:
                json.dump(spec, f, default=repr)
        except OSError:
            pass


def limit_memory():
    import resource

    lim = int(os.environ.get("VERIF_WORKER_AS_MB", "6144")) << 20
    try:
        resource.setrlimit(resource.RLIMIT_AS, (lim, lim))
    except (ValueError, OSError):
        pass


def hyp_settings(max_examples: int, shrink: bool = False):
    from hypothesis import HealthCheck, Phase, settings

    phases = (Phase.generate, Phase.shrink) if shrink else (Phase.generate,)
    return settings(
        max_examples=max(1, max_examples),
        phases=phases,
        database=None,
        deadline=None,
        derandomize=False,
        report_multiple_bugs=False,
        suppress_health_check=list(HealthCheck),
        print_blob=False,
    )


def derive_seed(seed: int, shard: int) -> int:
    return seed * 1009 + shard * 7 + 1


def run_search(mod, tier, seed, shard, nshards, args) -> dict:
    col = Collector()
    if hasattr(mod, "run_shard"):
        mod.run_shard(col, tier, seed, shard, nshards, args)
        return col.result()
    from hypothesis import given
    from hypothesis import seed as hseed

    total = int(mod.budget(tier) * float(args.get("budget_scale", 1)))
    n = total // nshards + (1 if shard < total % nshards else 0)
    if n <= 0:
        return col.result()
    strat = mod.strategy(tier)

    hangs = [0]

    @hseed(derive_seed(seed, shard) + int(args.get("seed_salt", 0)))
    @hyp_settings(n)
    @given(strat)
    def t(spec):
        out = guarded(mod, spec)
        col.handle(spec, out)
        if any(f.sig.startswith("hang|") for f in out.failures):
            hangs[0] += 1
            if hangs[0] >= MAX_HANGS:
                raise StopSearch

    try:
        t()
    except StopSearch:
        pass
    return col.result()


def run_exhaustive(mod, tier, seed, shard, nshards, args) -> dict:
    col = Collector()
    for i, spec in enumerate(mod.exhaustive(tier)):
        if i % nshards != shard:
            continue
        col.handle(spec, guarded(mod, spec))
    return col.result()


def run_replay(mod, tier, seed, shard, nshards, args) -> dict:
    col = Collector()
    per_file = {}
    for path in args["files"]:
        with open(path) as f:
            doc = json.load(f)
        spec = doc["spec"]
        out = guarded(mod, spec)
        col.handle(spec, out)
        per_file[path] = [{"sig": f.sig, "message": f.message} for f in out.failures]
    res = col.result()
    res["per_file"] = per_file
    return res


def run_shrink(mod, tier, seed, shard, nshards, args) -> dict:
    """Re-run the shard's generation deterministically, failing only on `sig`, and let Hypothesis shrink.

    A verdict cache + wall budget keeps shrinking bounded: once the budget is spent, unseen specs pass.
    """
    from hypothesis import given
    from hypothesis import seed as hseed

    sig = args["sig"]
    budget_s = args.get("budget_s", 30)
    t0 = time.time()
    verdict: dict[str, str | None] = {}
    best = {"spec": None, "size": None, "message": None}

    class Hit(Exception):
        pass

    total = mod.budget(tier)
    n = total // nshards + (1 if shard < total % nshards else 0)
    strat = mod.strategy(tier)

    @hseed(derive_seed(seed, shard) + int(args.get("seed_salt", 0)))
    @hyp_settings(n, shrink=True)
    @given(strat)
    def t(spec):
        d = core.spec_digest(spec)
        if d in verdict:
            msg = verdict[d]
        elif time.time() - t0 > budget_s and best["spec"] is not None:
            return
        else:
            out = guarded(mod, spec)
            msg = None
            for f in out.failures:
                if f.sig == sig:
                    msg = f.message
                    break
            verdict[d] = msg
        if msg is not None:
            sz = core.spec_size(spec)
            if best["size"] is None or sz <= best["size"]:
                best.update(spec=spec, size=sz, message=msg)
            raise Hit(msg)

    try:
        t()
    except Hit:
        pass
    except BaseException as e:  # hypothesis Flaky etc.: keep what we have
        best.setdefault("note", repr(e))
    return {"best": best}


def main(argv):
    mode, prop, tier, seed, shard, nshards, outfile = argv[:7]
    args = json.loads(argv[7]) if len(argv) > 7 else {}
    seed, shard, nshards = int(seed), int(shard), int(nshards)
    BREADCRUMB["path"] = outfile + ".current"
    t0 = time.time()
    res = {}
    code = 0
    cov = None
    try:
        limit_memory()
        if os.environ.get("VERIF_COV_DIR"):
            # reach report (tools/coverage_report.sh): line / branch coverage of the library under the generated cases; never an oracle
            import coverage

            cov = coverage.Coverage(data_file=os.path.join(os.environ["VERIF_COV_DIR"], "cov"), data_suffix=True, branch=True,
                                    include=[os.path.join(core.REPO_DIR, "dissect", "hypervisor", "*")])
            cov.start()
        core.ensure_repo_import()
        mod = importlib.import_module(f"hv.props.{prop.lower()}")
        fn = {"search": run_search, "exhaustive": run_exhaustive, "replay": run_replay, "shrink": run_shrink}[mode]
        res = fn(mod, tier, seed, shard, nshards, args)
    except BaseException:  # noqa: BLE001
        res = {"harness_error": traceback.format_exc()}
        code = 2
    if cov is not None:
        cov.stop()
        cov.save()
    res["wall_s"] = time.time() - t0
    res["seed"] = derive_seed(seed, shard)
    tmp = outfile + ".tmp"
    with open(tmp, "w") as f:
        json.dump(res, f, default=repr)
    os.replace(tmp, outfile)
    return code


if __name__ == "__main__":
    sys.exit(main(sys.argv[1:]))
