"""Hypothesis strategy helpers shared by the property modules."""
from __future__ import annotations

from hypothesis import strategies as st

ALIGN = 8192  # default stream buffer of dissect.util.stream.AlignedStream


@st.composite
def requests(draw, size: int, unit: int, count: int = 6, max_len: int = 3 << 20, points=(), whole_limit: int = 8 << 20):
    """A list of (offset, length) requests inside [0, size), biased towards unit / buffer boundaries and the tail.

    `points` are extra interesting absolute offsets (e.g. table-coverage boundaries)."""
    reqs = []
    if size <= 0:
        return [[0, 0]]
    nunits = max(1, (size + unit - 1) // unit)
    deltas = [-ALIGN - 1, -ALIGN, -513, -512, -511, -1, 0, 1, 511, 512, 513, ALIGN - 1, ALIGN, ALIGN + 1]
    for _ in range(count):
        kind = draw(st.integers(0, 9))
        if kind <= 3 and points and draw(st.booleans()):
            off = draw(st.sampled_from(list(points))) + draw(st.sampled_from(deltas))
        elif kind <= 3:  # around a unit boundary
            u = draw(st.integers(0, nunits))
            off = u * unit + draw(st.sampled_from(deltas))
        elif kind == 4:  # tail
            off = size - draw(st.sampled_from([1, 2, 511, 512, 513, ALIGN - 1, ALIGN, ALIGN + 1, unit, unit + 1, 2 * unit + 7]))
        elif kind == 5 and points:
            off = draw(st.sampled_from(list(points))) + draw(st.sampled_from(deltas))
        elif kind == 6:
            off = 0
        else:
            off = draw(st.integers(0, size - 1))
        off = max(0, min(size - 1, off))
        lk = draw(st.integers(0, 9))
        if lk <= 1:
            ln = draw(st.integers(1, 1024))
        elif lk <= 3:
            ln = unit + draw(st.sampled_from([-512, -1, 0, 1, 512]))
        elif lk <= 6:
            ln = draw(st.integers(1, 4)) * unit + draw(st.sampled_from([-513, -1, 0, 1, 511, 512, ALIGN, ALIGN + 1]))
        elif lk == 7:
            ln = draw(st.integers(1, 3)) * ALIGN + draw(st.integers(0, ALIGN))
        elif lk == 8:
            ln = size - off + draw(st.sampled_from([0, 1, 4096]))  # to (and past) the end
        else:
            ln = draw(st.integers(1, max(1, min(max_len, size))))
        ln = max(0, min(ln, max_len))
        reqs.append([off, ln])
    if size <= whole_limit and draw(st.booleans()):
        reqs.append([0, size])
    if size > (34 << 20) and draw(st.integers(0, 49)) == 0:
        # once in a while one very long request (tens of MiB in a single call): per-call caps, shared scratch buffers
        ln = draw(st.sampled_from([(32 << 20) + 1, (33 << 20) + 4097, 70 << 20]))
        off = draw(st.sampled_from([0, ALIGN + 512, max(0, size - ln - 512)] + [max(0, p - 4096) for p in list(points)[:2]]))
        off = max(0, min(off, size - 1))
        reqs.append([off, min(ln, size - off)])
    return reqs


@st.composite
def placement(draw, n: int, max_gap: int = 3):
    """Physical slots for n units: a permutation with gaps and runs of adjacency.

    Returns a list of n distinct non-negative slot numbers; unit i lives in slot result[i]."""
    if n == 0:
        return []
    mode = draw(st.sampled_from(["identity", "reverse", "shuffle", "runs", "gaps", "swap"]))
    order = list(range(n))
    if mode == "reverse":
        order.reverse()
    elif mode == "shuffle":
        order = draw(st.permutations(order))
    elif mode == "swap" and n >= 2:
        i = draw(st.integers(0, n - 2))
        order[i], order[i + 1] = order[i + 1], order[i]
    elif mode == "runs":
        # split into runs, shuffle the runs: adjacency inside a run, breaks between
        cuts = sorted(set(draw(st.lists(st.integers(1, max(1, n - 1)), max_size=4))))
        runs, prev = [], 0
        for c in cuts + [n]:
            if c > prev:
                runs.append(order[prev:c])
                prev = c
        runs = draw(st.permutations(runs))
        order = [x for r in runs for x in r]
    # order[k] = logical unit stored k-th physically; now assign slots with optional gaps
    slots = [0] * n
    pos = draw(st.integers(0, max_gap)) if mode == "gaps" else 0
    for k, unit in enumerate(order):
        slots[unit] = pos
        pos += 1
        if mode in ("gaps", "shuffle") and draw(st.integers(0, 3)) == 0:
            pos += draw(st.integers(1, max_gap))
    return slots


def sparse_subset(n: int, max_items: int = 24):
    """Sorted list of distinct indices in [0, n) (at most max_items), favouring clustered neighbours."""

    @st.composite
    def s(draw):
        if n <= 0:
            return []
        items = draw(st.lists(st.tuples(st.integers(0, n - 1), st.integers(1, 4)), max_size=max(1, max_items // 2)))
        out = set()
        for base, run in items:
            for j in range(run):
                if base + j < n and len(out) < max_items:
                    out.add(base + j)
        return sorted(out)

    return s()


def minimal_handle():
    """Whether (and how) a case also reads its image through a bare-bones caller-side file object (hv.core.MinimalHandle)."""
    return st.sampled_from([None, None, None, None, None, None, "plain", "seek-none", "reopen", "shared", "tempfile"])


def fault():
    """Whether (and where) the caller's file object fails once with an I/O error: [request index, k] = the k-th read() the
    library issues on the handle while serving that request raises OSError; the request is then repeated (hv.core.check_reads)."""
    return st.one_of(st.none(), st.none(), st.none(), st.none(), st.lists(st.integers(0, 5), min_size=2, max_size=2).map(lambda l: [l[0], 1 + l[1] % 4]))
